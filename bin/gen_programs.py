#!/usr/bin/env python3
"""Turn the definitions enumerated by TLC (Gen_Derive) into Rust sources.

  layout <vectors.ndjson> <seed> <count> <out.rs>   valid definitions -> harness/src/generated.rs (types + Reg impls)
  reject <vectors.ndjson> <seed> <count> <projdir>  one example target per definition (invalid ones with their valid twin)
"""
import hashlib
import json
import os
import sys

RUST_TY = {"u8": "u8", "u16": "u16", "u32": "u32", "u64": "u64", "bool": "bool", "vecu8": "Vec<u8>", "optu16": "Option<u16>", "str": "String",
           "gen": "T", "vecgen": "Vec<T>"}
# what the generic parameter is instantiated with
INST = {"T": "u16", "Vec<T>": "Vec<u16>"}
WIDTH = {"u8": 1, "u16": 2, "u32": 4, "u64": 8, "gen": 2}


def is_generic(d):
    fss = [d.get("fs", [])] if d["kind"] == "struct" else [v["fs"] for v in d.get("vs", [])]
    return any(f["ty"] in ("gen", "vecgen") for fs in fss for f in fs)


def needs_hascompact(d):
    fss = [d.get("fs", [])] if d["kind"] == "struct" else [v["fs"] for v in d.get("vs", [])]
    return any(f["ty"] == "gen" and f["attr"] in ("compact",) for fs in fss for f in fs)


def inst(ty):
    return INST.get(ty, ty)


def sample(lines, seed, count):
    keyed = sorted(lines, key=lambda l: hashlib.sha1((str(seed) + "|" + l).encode()).hexdigest())
    return keyed[:count]


def field_attr(f):
    a = f["attr"]
    if a == "none":
        return ""
    if a == "skip":
        return "#[codec(skip)] "
    if a == "compact":
        return "#[codec(compact)] "
    if a == "encoded_as":
        return '#[codec(encoded_as = "Compact<%s>")] ' % RUST_TY[f["ty"]]
    if a == "skip+compact":
        return "#[codec(skip)] #[codec(compact)] "
    if a == "compact+encoded_as":
        return '#[codec(compact)] #[codec(encoded_as = "Compact<%s>")] ' % RUST_TY[f["ty"]]
    if a == "skip,compact":
        return "#[codec(skip, compact)] "
    if a == "skip+encoded_as":
        return '#[codec(skip)] #[codec(encoded_as = "Compact<%s>")] ' % RUST_TY[f["ty"]]
    raise ValueError(a)


def fields_src(fs, shape, pub):
    p = "pub " if pub else ""
    if not fs:
        return "" if shape != "tuple" else "()"
    if shape == "tuple":
        return "(" + ", ".join("%s%s%s" % (field_attr(f), p, RUST_TY[f["ty"]]) for f in fs) + ")"
    return " { " + ", ".join("%s%sf%d: %s" % (field_attr(f), p, i, RUST_TY[f["ty"]]) for i, f in enumerate(fs)) + " }"


def type_src(name, d, derives):
    if d["kind"] in ("struct", "enum") and is_generic(d):
        bound = "T: parity_scale_codec::HasCompact" if needs_hascompact(d) else "T"
        plain = type_src_plain(name, d, derives)
        return plain.replace("pub struct %s" % name, "pub struct %s<%s>" % (name, bound), 1).replace("pub enum %s" % name, "pub enum %s<%s>" % (name, bound), 1)
    return type_src_plain(name, d, derives)


def type_src_plain(name, d, derives):
    if d["kind"] == "struct":
        rep = "#[repr(transparent)]\n" if d.get("transparent") else ""
        shape = d["shape"]
        if shape == "unit":
            return "#[derive(%s)]\npub struct %s;\n" % (derives, name)
        body = fields_src(d["fs"], shape, True)
        return "#[derive(%s)]\n%spub struct %s%s%s\n" % (derives, rep, name, body, ";" if shape == "tuple" else "")
    if d["kind"] == "enum":
        vs = []
        for i, v in enumerate(d["vs"]):
            attr = ""
            if v["skip"] and v["src"] == "attr":
                # both attributes, in either order (the derive accepts one item per #[codec(..)] on a variant, so there is
                # no joined form)
                style = (i + len(d["vs"]) + v["val"]) % 2
                attr = ["#[codec(skip)] #[codec(index = %d)] ", "#[codec(index = %d)] #[codec(skip)] "][style] % v["val"]
            elif v["skip"]:
                attr += "#[codec(skip)] "
            elif v["src"] == "attr":
                attr += "#[codec(index = %d)] " % v["val"]
            shape = "tuple" if len(v["fs"]) == 1 else "named"
            body = fields_src(v["fs"], shape, False) if v["fs"] else ""
            disc = " = %d" % v["val"] if v["src"] == "disc" else ""
            vs.append("\t%sV%d%s%s," % (attr, i, body, disc))
        rep = "#[repr(u8)]\n" if any(v["src"] == "disc" for v in d["vs"]) and any(v["fs"] for v in d["vs"]) else ""
        return "#[derive(%s)]\n%spub enum %s {\n%s\n}\n" % (derives, rep, name, "\n".join(vs))
    if d["kind"] == "bigenum":
        first = d.get("first_attr")
        vs = []
        for i in range(d["n"]):
            a = "#[codec(index = %d)] " % first if (first is not None and i == 0) else ""
            if d.get("skip_first") and i == 0:
                a = "#[codec(skip)] "
            vs.append("\t%sV%d," % (a, i))
        return "#[derive(%s)]\npub enum %s {\n%s\n}\n" % (derives, name, "\n".join(vs))
    if d["kind"] == "union":
        return "#[derive(%s)]\npub union %s { a: u8, b: u16 }\n" % (derives, name)
    if d["kind"] == "compactas":
        if d["shape"] == "enum":
            return "#[derive(parity_scale_codec::CompactAs)]\npub enum %s { A(u32) }\n" % name
        if d["shape"] == "tuple":
            if d["nonskipped"] == 1:
                return "#[derive(parity_scale_codec::CompactAs)]\npub struct %s(u32, #[codec(skip)] u32);\n" % name
            if d["nonskipped"] == 2:
                return "#[derive(parity_scale_codec::CompactAs)]\npub struct %s(u32, u32);\n" % name
            return "#[derive(parity_scale_codec::CompactAs)]\npub struct %s(u64, u64, u64);\n" % name
        if d["nonskipped"] == 1:
            return "#[derive(parity_scale_codec::CompactAs)]\npub struct %s { a: u32, #[codec(skip)] b: u8 }\n" % name
        if d["nonskipped"] == 2:
            return "#[derive(parity_scale_codec::CompactAs)]\npub struct %s { a: u32, b: u8 }\n" % name
        return "#[derive(parity_scale_codec::CompactAs)]\npub struct %s { #[codec(skip)] a: u32 }\n" % name
    raise ValueError(d["kind"])


def abs_expr(f, access):
    if f["attr"] in ("compact", "encoded_as"):
        return "digits(%s as u128, %d)" % (access, WIDTH[f["ty"]])
    return "Reg::abs(&%s)" % access


def mel_capable(d):
    def ok(fs):
        return all(f["attr"] == "skip" or f["ty"] in ("u8", "u16", "u32", "u64", "bool", "optu16", "gen") for f in fs)
    def skip_ok(fs):
        # skipped fields are not bounded by the derive, any type is fine
        return True
    if d["kind"] == "struct":
        return ok(d["fs"])
    return all(v["skip"] or ok(v["fs"]) for v in d["vs"])


def reg_impl(name, d, layout):
    lj = json.dumps(layout)
    out = []
    tname = name + ("<u16>" if is_generic(d) else "")
    out.append("impl Reg for %s {" % tname)
    zlen = "true" if (layout["k"] == "tuple" and not layout["ts"]) else "false"
    out.append("\tconst ZLEN: bool = %s;" % zlen)
    out.append('\tfn name() -> String { "%s".into() }' % name)
    out.append("\tfn descr() -> Value { serde_json::from_str(r#\"%s\"#).unwrap() }" % lj)
    if d["kind"] == "struct":
        fs = d["fs"]
        if d["shape"] == "unit":
            out.append("\tfn gen(_g: &mut G) -> Self { %s }" % name)
            out.append("\tfn abs(&self) -> Value { json!([]) }")
        else:
            tup = d["shape"] == "tuple"
            gens = ["<%s as Reg>::gen(g)" % inst(RUST_TY[f["ty"]]) for f in fs]
            if tup:
                out.append("\tfn gen(g: &mut G) -> Self { g.nested(|g| %s(%s)) }" % (name, ", ".join(gens)))
            else:
                out.append("\tfn gen(g: &mut G) -> Self { g.nested(|g| %s { %s }) }" % (name, ", ".join("f%d: %s" % (i, x) for i, x in enumerate(gens))))
            parts = []
            for i, f in enumerate(fs):
                if f["attr"] == "skip":
                    continue
                parts.append(abs_expr(f, "self.%s" % (str(i) if tup else "f%d" % i)))
            out.append("\tfn abs(&self) -> Value { Value::Array(vec![%s]) }" % ", ".join(parts))
    else:
        vs = d["vs"]
        enc = [i for i, v in enumerate(vs) if not v["skip"]]
        arms = []
        for pos, i in enumerate(enc):
            v = vs[i]
            gens = ["<%s as Reg>::gen(g)" % inst(RUST_TY[f["ty"]]) for f in v["fs"]]
            if not v["fs"]:
                ctor = "%s::V%d" % (name, i)
            elif len(v["fs"]) == 1:
                ctor = "%s::V%d(%s)" % (name, i, gens[0])
            else:
                ctor = "%s::V%d { %s }" % (name, i, ", ".join("f%d: %s" % (j, x) for j, x in enumerate(gens)))
            arms.append("%d => %s," % (pos, ctor))
        if enc:
            out.append("\tfn gen(g: &mut G) -> Self { g.nested(|g| match g.below(%d) { %s _ => unreachable!() }) }" % (len(enc), " ".join(arms)))
        else:
            # only skipped variants: no encodable value; gen is never called by the drivers that encode
            v = vs[0]
            out.append("\tfn gen(_g: &mut G) -> Self { unreachable!() }")
        arms = []
        pos = 0
        for i, v in enumerate(vs):
            if not v["fs"]:
                pat = "%s::V%d" % (name, i)
                binds = []
            elif len(v["fs"]) == 1:
                pat = "%s::V%d(a0)" % (name, i)
                binds = ["a0"]
            else:
                pat = "%s::V%d { %s }" % (name, i, ", ".join("f%d: a%d" % (j, j) for j in range(len(v["fs"]))))
                binds = ["a%d" % j for j in range(len(v["fs"]))]
            if v["skip"]:
                if binds:
                    pat = pat.replace("(a0)", "(..)")
                    if "{" in pat:
                        pat = "%s::V%d { .. }" % (name, i)
                arms.append('%s => json!({"i":0,"fs":[]}),' % pat)
                continue
            pos += 1
            parts = []
            for j, f in enumerate(v["fs"]):
                if f["attr"] == "skip":
                    parts.append(None)
                    continue
                parts.append(abs_expr(f, "*a%d" % j) if f["attr"] in ("compact", "encoded_as") else "Reg::abs(a%d)" % j)
            used = [p for p in parts if p is not None]
            # silence unused bindings of skipped fields
            for j, p in enumerate(parts):
                if p is None:
                    pat = pat.replace("a%d" % j, "_")
            arms.append('%s => json!({"i":%d,"fs":[%s]}),' % (pat, pos, ", ".join(used)))
        out.append("\tfn abs(&self) -> Value { match self { %s } }" % " ".join(arms))
    out.append("}")
    return "\n".join(out)


def skipped_ctor(name, d):
    """An expression building a value in a skipped variant, if the enum has one."""
    if d["kind"] != "enum":
        return None
    for i, v in enumerate(d["vs"]):
        if v["skip"]:
            gens = ["<%s as Reg>::gen(g)" % inst(RUST_TY[f["ty"]]) for f in v["fs"]]
            if not v["fs"]:
                return "%s::V%d" % (name, i)
            if len(v["fs"]) == 1:
                return "%s::V%d(%s)" % (name, i, gens[0])
            return "%s::V%d { %s }" % (name, i, ", ".join("f%d: %s" % (j, x) for j, x in enumerate(gens)))
    return None


def cmd_layout(path, seed, count, out):
    lines = [l.strip() for l in open(path) if l.strip()]
    # always include the structurally interesting corners, then a seeded sample
    # stratified: the enum family is far larger than the struct family, so sample them separately; always keep the
    # transparent structs and a share of generic ones
    kinds = {l: json.loads(l)["def"] for l in lines}
    structs = [l for l in lines if kinds[l]["kind"] == "struct"]
    enums = [l for l in lines if kinds[l]["kind"] == "enum"]
    transparent = [l for l in structs if kinds[l].get("transparent")]
    generic = [l for l in structs if is_generic(kinds[l]) and l not in transparent]
    plain = [l for l in structs if l not in transparent and l not in generic]
    n_s = count * 45 // 100
    chosen = transparent + sample(generic, seed, n_s // 3) + sample(plain, seed, max(0, n_s - n_s // 3 - len(transparent)))
    # corners of the enum family that a uniform sample of ~60 rarely holds: a data-carrying variant whose explicit
    # discriminant differs from its position; a skipped variant that also has an index attribute (written in one of
    # three surface forms) ahead of implicit ones; a struct-like variant with an index attribute away from its position
    def corner(l):
        vs = kinds[l]["vs"]
        live = [v for v in vs if not v["skip"]]
        c = []
        for i, v in enumerate(vs):
            pos = len([w for w in vs[:i] if not w["skip"]])
            if v["fs"] and v["src"] == "disc" and not v["skip"] and v["val"] != pos: c.append("disc")
            if v["skip"] and v["src"] == "attr" and any(w["src"] == "none" and not w["skip"] for w in vs[i + 1:]): c.append("skipidx%d" % ((i + len(vs) + v["val"]) % 2))
            if len(v["fs"]) == 2 and v["src"] == "attr" and not v["skip"] and v["val"] != pos: c.append("namedidx")
        return c
    for tag in ["disc", "skipidx0", "skipidx1", "namedidx"]:
        chosen += sample([l for l in enums if tag in corner(l) and l not in chosen], seed, 3)
    chosen += sample([l for l in enums if l not in chosen], seed, max(0, count - len(chosen)))
    src = []
    src.append("//! GENERATED by bin/gen_programs.py from the definitions TLC enumerated (spec/Gen_Derive.tla).")
    src.append("//! seed=%d count=%d.  Do not edit." % (seed, len(chosen)))
    src.append("#![allow(dead_code, unused_variables, unused_imports, clippy::all)]")
    src.append("use crate::reg::{digits, Reg};")
    src.append("use crate::rng::G;")
    src.append("use parity_scale_codec::{Compact, Decode, DecodeWithMemTracking, Encode};")
    src.append("#[cfg(feature = \"max-encoded-len\")]\nuse parity_scale_codec::MaxEncodedLen;")
    src.append("use serde_json::{json, Value};\n")
    names, mel_names, nonempty, transp, skipctors = [], [], [], [], []
    for i, l in enumerate(chosen):
        rec = json.loads(l)
        d, layout = rec["def"], rec["layout"]
        name = "G%d" % i
        mel = mel_capable(d)
        derives = "Encode, Decode, DecodeWithMemTracking, Debug, Clone, PartialEq"
        t = type_src(name, d, derives)
        if mel and not (is_generic(d) and d["kind"] == "enum"):
            t = t.replace("#[derive(", '#[cfg_attr(feature = "max-encoded-len", derive(MaxEncodedLen))]\n#[derive(', 1)
            mel_names.append(name + ("<u16>" if is_generic(d) else ""))
        src.append("// " + json.dumps(d))
        src.append(t)
        src.append(reg_impl(name, d, layout))
        tname = name + ("<u16>" if is_generic(d) else "")
        names.append(tname)
        has_value = not (d["kind"] == "enum" and all(v["skip"] for v in d["vs"]))
        if has_value:
            nonempty.append(tname)
        if d["kind"] == "struct" and d.get("transparent"):
            transp.append(tname)
        sc = skipped_ctor(name, d)
        if sc:
            skipctors.append((tname, sc))
        src.append("")
    src.append("#[macro_export]\nmacro_rules! each_generated_type {\n\t($f:ident, $args:tt) => {\n\t\teach_codec_type!(@list $f, $args; %s);\n\t};\n}" %
               ", ".join(["$crate::generated::%s" % n for n in nonempty] +
                         ["Box<$crate::generated::%s>" % n for n in transp] + ["[$crate::generated::%s; 2]" % n for n in transp]))
    src.append("#[macro_export]\nmacro_rules! each_generated_mel_type {\n\t($f:ident, $args:tt) => {\n\t\teach_mel_type!(@list $f, $args; %s);\n\t};\n}" %
               ", ".join("$crate::generated::%s" % n for n in mel_names if n in nonempty))
    # values in skipped variants: must encode to nothing through every entry point
    src.append("pub fn skipped_values(g: &mut G) -> Vec<(String, Vec<serde_json::Value>, Result<Vec<u8>, ()>)> {")
    src.append("\tlet mut out = vec![];")
    for name, sc in skipctors:
        src.append("\t{ let v: %s = %s; out.push((\"%s\".to_string(), crate::drivers::entry_points(&v), crate::drivers::guarded(|| v.encode()))); }" % (name, sc, name))
    src.append("\tout\n}")
    text = "\n".join(src) + "\n"
    old = open(out).read() if os.path.exists(out) else None
    if old != text:
        open(out, "w").write(text)
    print("generated %d types (%d with values, %d MEL, %d transparent, %d with skipped variants) -> %s%s" %
          (len(names), len(nonempty), len(mel_names), len(transp), len(skipctors), out, "" if old != text else " (unchanged)"))


SPECIALS = [
    dict(kind="bigenum", n=256), dict(kind="bigenum", n=257), dict(kind="bigenum", n=256, first_attr=255),
    dict(kind="bigenum", n=3, first_attr=2), dict(kind="bigenum", n=3, first_attr=7),
    dict(kind="bigenum", n=257, skip_first=True), dict(kind="bigenum", n=258, skip_first=True),
    dict(kind="struct", shape="named", transparent=False, fs=[dict(ty="u32", attr="none"), dict(ty="u64", attr="skip+compact")]),
    dict(kind="struct", shape="tuple", transparent=False, fs=[dict(ty="u32", attr="none"), dict(ty="u64", attr="skip+encoded_as")]),
    dict(kind="struct", shape="named", transparent=False, fs=[dict(ty="u8", attr="none"), dict(ty="u32", attr="none"), dict(ty="u64", attr="compact+encoded_as")]),
    dict(kind="struct", shape="named", transparent=False, fs=[dict(ty="u32", attr="none"), dict(ty="u64", attr="skip")]),
    # a single encodable variant is still range-checked
    dict(kind="enum", vs=[dict(src="attr", val=300, skip=False, fs=[dict(ty="u8", attr="none")])]),
    dict(kind="enum", vs=[dict(src="attr", val=255, skip=False, fs=[dict(ty="u8", attr="none")])]),
    dict(kind="enum", vs=[dict(src="none", val=0, skip=True, fs=[]), dict(src="attr", val=256, skip=False, fs=[]), dict(src="none", val=0, skip=True, fs=[])]),
    dict(kind="enum", vs=[dict(src="disc", val=256, skip=False, fs=[])]),
    dict(kind="union"),
    dict(kind="compactas", shape="struct", nonskipped=1), dict(kind="compactas", shape="struct", nonskipped=2),
    dict(kind="compactas", shape="struct", nonskipped=0), dict(kind="compactas", shape="enum", nonskipped=1),
    dict(kind="compactas", shape="tuple", nonskipped=1), dict(kind="compactas", shape="tuple", nonskipped=2),
    dict(kind="compactas", shape="tuple", nonskipped=3),
    dict(kind="bigenum", n=300, skip_first=True),
    dict(kind="struct", shape="named", transparent=False, fs=[dict(ty="u32", attr="skip+compact")]),
    dict(kind="struct", shape="named", transparent=False, fs=[dict(ty="u32", attr="compact+encoded_as")]),
    dict(kind="struct", shape="tuple", transparent=False, fs=[dict(ty="u32", attr="skip,compact")]),
    dict(kind="struct", shape="named", transparent=False, fs=[dict(ty="u32", attr="compact"), dict(ty="u8", attr="skip")]),
    dict(kind="struct", shape="tuple", transparent=False, fs=[dict(ty="u64", attr="encoded_as")]),
]


def example_src(d):
    derives = "Encode, Decode"
    if d["kind"] == "compactas":
        return "#![allow(dead_code)]\nuse parity_scale_codec::{Compact, Decode, Encode};\n" + type_src("T", d, derives) + "fn main() {}\n"
    return "#![allow(dead_code)]\nuse parity_scale_codec::{Compact, Decode, Encode};\n" + type_src("T", d, derives) + "fn main() {}\n"


def cmd_reject(path, seed, count, proj):
    lines = [l.strip() for l in open(path) if l.strip()]
    rej = [l for l in lines if '"purpose":"reject"' in l]
    acc = [l for l in lines if '"purpose":"accept"' in l]
    chosen = sample(rej, seed, count) + sample(acc, seed, max(10, count // 3))
    os.makedirs(os.path.join(proj, "examples"), exist_ok=True)
    os.makedirs(os.path.join(proj, "src"), exist_ok=True)
    for f in os.listdir(os.path.join(proj, "examples")):
        os.remove(os.path.join(proj, "examples", f))
    open(os.path.join(proj, "src", "lib.rs"), "w").write("")
    index = []
    n = 0
    def add(d, role, of):
        nonlocal n
        name = "p%05d" % n
        n += 1
        open(os.path.join(proj, "examples", name + ".rs"), "w").write(example_src(d))
        index.append(dict(target=name, role=role, of=of, **{"def": d}))
        return name
    for l in chosen:
        rec = json.loads(l)
        t = add(rec["def"], "main", None)
        if rec.get("twin", {}).get("kind", "none") != "none":
            add(rec["twin"], "twin", t)
    for d in SPECIALS:
        add(d, "main", None)
    json.dump(index, open(os.path.join(proj, "index.json"), "w"))
    print("wrote %d example targets to %s" % (n, proj))


if __name__ == "__main__":
    if sys.argv[1] == "layout":
        cmd_layout(sys.argv[2], int(sys.argv[3]), int(sys.argv[4]), sys.argv[5])
    else:
        cmd_reject(sys.argv[2], int(sys.argv[3]), int(sys.argv[4]), sys.argv[5])
