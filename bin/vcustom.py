"""Property-specific steps of bin/vcheck that are not plain trace generation."""
import json
import os
import re
import shutil
import subprocess
import sys
import time

VERIF = os.path.dirname(os.path.dirname(os.path.abspath(__file__)))


def gen_rust_types(ctxt, step, vc):
    """C05/C13: turn TLC's valid definitions into harness/src/generated.rs (rebuild follows)."""
    count = step["count"][ctxt["tier"]]
    # the sample of definitions is part of the committed harness for seed 0; other seeds regenerate it
    cmd = [sys.executable, os.path.join(VERIF, "bin", "gen_programs.py"), "layout",
           os.path.join(ctxt["workdir"], step["vectors"]), str(ctxt["seed"]), str(count),
           os.path.join(VERIF, "harness", "src", "generated.rs")]
    rc, out, err = vc.run(cmd)
    if rc != 0:
        sys.stdout.write(out + err)
        vc.tool_error("gen_programs layout failed")
    vc.log(out.strip())
    m = re.search(r"generated (\d+) types", out)
    ctxt["evidence"]["programs"] = int(m.group(1)) if m else 0


def restore_generated(ctxt, step, vc):
    """Leave the committed (seed 0, quick) generated.rs in place after a run with another sample."""
    if ctxt["seed"] == 0 and ctxt["tier"] == "quick":
        return
    subprocess.run(["git", "-C", VERIF, "checkout", "--", "harness/src/generated.rs"], stdout=subprocess.DEVNULL, stderr=subprocess.DEVNULL)


def derive_reject(ctxt, step, vc):
    """C17: compile every generated program (and its valid twin) as its own example target against
    /repo and let TLC judge the compiler's verdicts against Valid(def)."""
    workdir = ctxt["workdir"]
    proj = os.path.join(VERIF, "derive_programs")
    os.makedirs(proj, exist_ok=True)
    open(os.path.join(proj, "Cargo.toml"), "w").write(
        '[package]\nname = "derive_programs"\nversion = "0.1.0"\nedition = "2021"\n\n[workspace]\n\n[dependencies]\n'
        'parity-scale-codec = { path = "/repo", features = ["derive"] }\n')
    os.makedirs(os.path.join(proj, ".cargo"), exist_ok=True)
    open(os.path.join(proj, ".cargo", "config.toml"), "w").write('[net]\noffline = true\n\n[build]\ntarget-dir = "target"\n')
    if not os.path.exists(os.path.join(proj, "Cargo.lock")):
        shutil.copy("/repo/Cargo.lock", os.path.join(proj, "Cargo.lock"))
    count = step["count"][ctxt["tier"]]
    cmd = [sys.executable, os.path.join(VERIF, "bin", "gen_programs.py"), "reject",
           os.path.join(workdir, step["vectors"]), str(ctxt["seed"]), str(count), proj]
    rc, out, err = vc.run(cmd)
    if rc != 0:
        sys.stdout.write(out + err)
        vc.tool_error("gen_programs reject failed")
    vc.log(out.strip())
    index = json.load(open(os.path.join(proj, "index.json")))
    t0 = time.time()
    rc, out, err = vc.run(["cargo", "check", "--offline", "--examples", "--keep-going", "--message-format=json", "-j", "16"],
                          cwd=proj, env={"CARGO_NET_OFFLINE": "true"}, timeout=3000)
    ok_targets, failed, diags = set(), set(), {}
    lib_failed = False
    for line in out.splitlines():
        try:
            msg = json.loads(line)
        except Exception:
            continue
        if msg.get("reason") == "compiler-artifact":
            t = msg.get("target", {})
            if "example" in t.get("kind", []):
                ok_targets.add(t["name"])
        elif msg.get("reason") == "compiler-message":
            t = msg.get("target", {})
            lvl = msg.get("message", {}).get("level")
            if lvl == "error":
                if "example" in t.get("kind", []):
                    failed.add(t["name"])
                    diags.setdefault(t["name"], msg["message"].get("message", "")[:160])
                else:
                    lib_failed = True
    if lib_failed or (not ok_targets and not failed):
        sys.stdout.write(err[-3000:])
        vc.tool_error("derive_programs does not build at all (dependency / toolchain problem)")
    trace = os.path.join(workdir, "programs.ndjson")
    by_target = {e["target"]: e for e in index}
    n = 0
    with open(trace, "w") as f:
        for e in index:
            if e["role"] != "main":
                continue
            t = e["target"]
            compiled = t in ok_targets and t not in failed
            twins = [x for x in index if x["role"] == "twin" and x["of"] == t]
            rec = dict(k="prog", tn=e["def"]["kind"], **{"def": e["def"]}, compiled=compiled, diag=diags.get(t, ""),
                       twin=(twins[0]["def"] if twins else {"kind": "none"}),
                       twin_compiled=(twins[0]["target"] in ok_targets and twins[0]["target"] not in failed) if twins else True,
                       sig=[t])
            f.write(json.dumps(rec) + "\n")
            n += 1
    vc.log("compiled %d example targets in %.0fs: %d ok, %d rejected" % (len(index), time.time() - t0, len(ok_targets - failed), len(failed)))
    ne, nt, samples, per_type = vc.trace_stats(trace)
    acc, rej = vc.validate_trace(trace, ctxt["prop"], "Trace_Codec", workdir, "programs")
    vc.log("TRACE programs: %d records, %d accepted by TLC, %d rejected" % (n, acc, len(rej)))
    ctxt["evidence"]["programs"] = len(index)
    ctxt["evidence"]["disagreements_checked"] = n
    ctxt["evidence"]["extra_validated"] = ctxt["evidence"].get("extra_validated", 0) + acc
    ctxt["evidence"]["extra_evaluations"] = ctxt["evidence"].get("extra_evaluations", 0) + n
    ctxt["evidence"]["extra_distinct"] = ctxt["evidence"].get("extra_distinct", 0) + n
    ctxt["evidence"]["samples"] = [dict(defn=json.loads(json.dumps(e["def"])), compiled=(e["target"] in ok_targets and e["target"] not in failed),
                                        diagnostic=diags.get(e["target"], "")) for e in index if e["role"] == "main"][:6]
    ctxt["evidence"]["diagnostics_seen"] = sorted(set(re.sub(r"`[^`]*`", "`..`", d) for d in diags.values()))[:12]
    for j, rec in enumerate(rej):
        kf = vc.known_match(ctxt["prop"], rec, ctxt["known"])
        if kf:
            ctxt["known_hits"].append(kf)
            continue
        rp = os.path.join(vc.WORK, "replay", "%s-s%d-prog-%d.json" % (ctxt["prop"], ctxt["seed"], j))
        json.dump(dict(property=ctxt["prop"], seed=ctxt["seed"], tier=ctxt["tier"], step="programs", record=rec), open(rp, "w"))
        ctxt["violations"].append(rp)


# ------------------------------------------------------------------ C20: feature configurations

OPTIONALS = ["derive", "bit-vec", "bytes", "generic-array", "max-encoded-len"]
CONFIGS_QUICK = [
    ("default", None),                                             # std + chain-error + every optional
    ("nostd-all", ",".join(OPTIONALS)),                            # no default features: no_std + alloc
    ("nostd-chain-all", ",".join(["chain-error"] + OPTIONALS)),    # no_std + chain-error
]
CONFIGS_THOROUGH = CONFIGS_QUICK + [
    ("nostd-none", ""), ("std-none", "std"), ("nostd-chain-none", "chain-error"),
] + [("nostd-" + o, o) for o in OPTIONALS]


def feature_builds(ctxt, step, vc):
    """C20: the same deterministic corpus through one build of the harness per feature configuration;
    every build's trace is validated by TLC against the same specification, and the records are
    compared across builds (by type name and case number)."""
    import hashlib
    workdir = ctxt["workdir"]
    configs = CONFIGS_THOROUGH if ctxt["tier"] == "thorough" else CONFIGS_QUICK
    digests = {}
    total_acc = 0
    samples = []
    for name, feats in configs:
        tdir = os.path.join(VERIF, "harness", "target-" + name)
        binary, bt = vc.build_harness(features=feats, target_dir=tdir)
        trace = os.path.join(workdir, "trace-%s.ndjson" % name)
        cmd = [binary, "gen", "--prop", "C20", "--tier", ctxt["tier"], "--seed", str(ctxt["seed"]), "--out", trace]
        if ctxt.get("type_filter"):
            cmd += ["--types", ctxt["type_filter"]]
        rc, out, err = vc.run(cmd, cwd=workdir, timeout=1800)
        if rc != 0:
            sys.stdout.write((out + err)[-2000:])
            if rc < 0 or rc in (134, 139):
                rp = os.path.join(vc.WORK, "replay", "C20-%s-crash.json" % name)
                json.dump(dict(property="C20", config=name, crash=True, cmd=cmd), open(rp, "w"))
                ctxt["violations"].append(rp)
                continue
            vc.tool_error("harness gen failed in configuration %s" % name)
        n, nt, smp, per_type = vc.trace_stats(trace)
        acc, rej = vc.validate_trace(trace, "C20", "Trace_Codec", workdir, "cfg-" + name)
        total_acc += acc
        vc.log("CONFIG %s (features: %s): built in %.0fs, %d records, %d accepted, %d rejected" %
               (name, "default" if feats is None else (feats or "<none>"), bt, n, acc, len(rej)))
        for j, rec in enumerate(rej):
            rp = os.path.join(vc.WORK, "replay", "C20-s%d-%s-%d.json" % (ctxt["seed"], name, j))
            json.dump(dict(property="C20", seed=ctxt["seed"], tier=ctxt["tier"], config=name, record=rec), open(rp, "w"))
            ctxt["violations"].append(rp)
        # digest per (type, case number) for the cross-configuration comparison
        d = {}
        cnt = {}
        with open(trace) as f:
            for line in f:
                r = json.loads(line)
                key = (r.get("k"), r.get("tn"))
                i = cnt.get(key, 0)
                cnt[key] = i + 1
                # what is compared across configurations: bytes, verdicts, values and bytes consumed - of the recording
                # base run and of every run on a back-end that exists in all configurations (a failed read that moves the
                # input in one configuration only shows in the bytes consumed of the plain slice)
                common = [[x.get("be"), x.get("st"), x.get("res"), x.get("n"), x.get("v")] for x in r.get("runs", [])
                          if x.get("be") in ("slice", "rec", "unk", "bytes")]
                obs = json.dumps([r.get("out"), r.get("res"), r.get("v"), r.get("base", {}).get("res"), r.get("base", {}).get("v"),
                                  r.get("base", {}).get("n"), r.get("inp"), common], sort_keys=True)
                d[(r.get("k"), r.get("tn"), i)] = hashlib.sha1(obs.encode()).hexdigest()
        digests[name] = d
        ctxt["evidence"].setdefault("configurations", []).append(dict(name=name, features=feats, records=n, accepted=acc))
        ctxt["evidence"]["extra_evaluations"] = ctxt["evidence"].get("extra_evaluations", 0) + n
        ctxt["evidence"]["extra_distinct"] = max(ctxt["evidence"].get("extra_distinct", 0), nt)
        if not samples:
            samples = smp[:3]
    ctxt["evidence"]["extra_validated"] = total_acc
    ctxt["evidence"]["samples"] = samples
    # cross-configuration comparison (both configurations named)
    base_name = configs[0][0]
    base = digests.get(base_name, {})
    compared = 0
    for name, d in digests.items():
        if name == base_name:
            continue
        for key, h in d.items():
            if key in base:
                compared += 1
                if base[key] != h:
                    rp = os.path.join(vc.WORK, "replay", "C20-s%d-diff-%s.json" % (ctxt["seed"], name))
                    json.dump(dict(property="C20", seed=ctxt["seed"], tier=ctxt["tier"], configs=[base_name, name],
                                   record=dict(k=key[0], tn=key[1], case=key[2])), open(rp, "w"))
                    ctxt["violations"].append(rp)
                    vc.log("DIFF between %s and %s at %s" % (base_name, name, key))
                    break
    ctxt["evidence"]["records_compared_across_configurations"] = compared
