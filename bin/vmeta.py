"""Texts for MANIFEST.json."""
HOOK_COMMITS = []

TB = ("Trusted: TLC and the Json/IOUtils community modules, rustc/std, the harness's abs/descr projections (which never go "
      "through the codec) and the registry's type<->descriptor table. Bounded: the MC universe and the sampled/mutated "
      "values and byte strings listed in the evidence; nothing is claimed about unexplored inputs.")

def m(text, ref, technique, note=TB):
    return dict(text=text, design_ref=ref, technique=technique, note=note)

META = {
 "C01": m("TLC model-checks the format algebra (Match = Enc, length bounds) on a bounded (type,value) universe and validates, record by record, "
          "that bytes produced by the real Encode impls of ~230 registry types equal the specification's encoding (Match/IsEncodingOf).",
          "DESIGN.md §6 C01", "TLA+ spec + TLC model checking + TLC trace validation of recorded encodings"),
 "C02": m("RoundTrip invariant model-checked on the bounded universe; recorded encode/append-tail/decode episodes of the real code validated by TLC "
          "(value, consumed length, untouched tail), including lengths straddling the 16 KiB preallocation window.",
          "DESIGN.md §6 C02", "TLA+ spec + TLC model checking + TLC trace validation of round-trip episodes"),
 "C03": m("The specification's total decoder Dec is the oracle: TLC validates the outcome (accept/reject, value, consumed) of the real decoder on "
          "mutated/near-valid/random byte strings for every registry type; panics are unexplained events.",
          "DESIGN.md §6 C03", "TLA+ spec + TLC model checking + TLC trace validation of decode outcomes"),
 "C04": m("MC_Compact: exhaustive for 8/16-bit values and all strings up to 2 bytes, boundary-complete families for 32/64/128 bit (round trip, minimality, "
          "width compatibility, canonicity, buffer capacity). The same spaces are driven through the real Compact encoders/decoders (exhaustive u8/u16 "
          "and <=2-byte strings; TLC-generated vectors; random) and every record is validated by TLC.",
          "DESIGN.md §6 C04", "TLA+ spec + exhaustive TLC model checking (8/16 bit) + TLC-generated vectors replayed + TLC trace validation"),
 "C05": m("MC_Derive: for every definition of the bounded grammar that the specification calls valid, the layout round-trips, index bytes are injective, unknown "
          "indices are rejected, every Encode entry point terminates (Mode=legacy reproduces the all-variants-skipped recursion repaired by a fix: commit). "
          "TLC-enumerated definitions are compiled into the harness with Layout(def) as descriptor and go through the enc / round-trip / decode records; values "
          "in skipped variants must encode to nothing through every entry point.",
          "DESIGN.md §6 C05", "TLA+ spec + TLC model checking over type definitions + generated programs compiled and validated by TLC"),
 "C06": m("MC_Containers explores every history (<= 6 operations) of a ring-buffer deque, an ordered map and an offset bit store and shows the encoding "
          "is that of the logical content; recorded random histories on the real VecDeque/Vec/LinkedList/BTreeMap/BTreeSet/BinaryHeap/String/BitVec are "
          "validated by TLC after every operation against Enc(Logical(history)) (logical state recomputed from the logged operations, not from the container).",
          "DESIGN.md §6 C06", "TLA+ spec + TLC model checking of container histories + TLC trace validation of recorded histories"),
 "C07": m("For every value the bytes delivered through encode, encode_to (Vec with existing content, direct Output, io::Write with short writes, dyn Output), "
          "using_encoded and the length from encoded_size are validated by TLC against the same Enc; bulk-path sequences/arrays and their element-wise twin "
          "types round-trip across the 16 KiB window under the same specification.",
          "DESIGN.md §6 C07", "TLA+ spec + TLC trace validation of all encoding entry points"),
 "C08": m("Every input is decoded through all back-ends and all wrapper stacks (length <= 3) with non-binding limits; TLC requires each outcome to equal Dec.",
          "DESIGN.md §6 C08", "TLA+ spec + TLC trace validation across input configurations"),
 "C11": m("Depth envelope (MinDepth <= observed <= MaxDepth), balance of descend/ascend, and Limited(L) = (L >= dObs ? Unlimited : err) checked by TLC on "
          "recorded episodes for every L in 0..dObs+2.", "DESIGN.md §6 C11", "TLA+ spec + TLC trace validation of depth-limited episodes"),
 "C12": m("Threshold equations of the memory limit and the HeapPayload envelope checked by TLC on recorded episodes for every limit around the tracked usage U.",
          "DESIGN.md §6 C12", "TLA+ spec + TLC trace validation of memory-limited episodes"),
 "C14": m("PrefixFree invariant model-checked; every cut of recorded encodings must be rejected by the real decoder, and decode_all / decode_all_with_depth_limit "
          "must succeed exactly when Dec consumes everything.", "DESIGN.md §6 C14", "TLA+ spec + TLC model checking + TLC trace validation"),
 "C13": m("MaxLen/FixedLen of the specification are the reference: TLC requires max_encoded_len() >= MaxLen(layout), ConstEncodedLen => constant, "
          "encoded_fixed_size() = FixedLen, and every recorded encoding within the declared bound (built-ins and derived types with compact / encoded_as / skip / generics).",
          "DESIGN.md §6 C13", "TLA+ spec + TLC trace validation of declared lengths"),
 "C15": m("MC_Append: AppendImpl refines AppendReq over histories of <= 3 appends around every prefix-width boundary and 2^32 (the pre-fix `as u32` variant is kept "
          "as Mode=legacy and still yields TLC's counterexample); recorded append_or_new histories on the real code (items u8/u32/String/Vec<u8>/Option/derived, "
          "EncodeLike forms, zero-sized items at 2^14/2^30/2^32) are validated step by step.",
          "DESIGN.md §6 C15", "TLA+ spec + TLC model checking of append histories + TLC trace validation"),
 "C16": m("One constructor per declared EncodeLike family (type-checked against the declaration); TLC validates that A's bytes are the encoding of the corresponding "
          "B value and that B's decoder reads them back.", "DESIGN.md §6 C16", "TLA+ spec + TLC trace validation of EncodeLike pairs"),
 "C17": m("TLC enumerates enum definitions over all index sources with indices up to 300 (plus attribute-conflict, union, CompactAs and 256/257-variant cases), "
          "computes Valid(def) and a minimally different valid twin; each program is compiled as its own target against /repo and TLC requires "
          "compiled = Valid(def) and that the twin compiles.",
          "DESIGN.md §6 C17", "TLA+ spec + TLC-enumerated programs compiled against the derive, verdicts validated by TLC"),
 "C09": m("An allocator ledger records every request that raises the live total during decoding of hostile inputs (tampered counts up to 2^32-1 at every early position, "
          "with payload, over known-length, unknown-length and shared-buffer inputs); TLC requires live <= A(ty)*(bytes delivered+1) + (1 MiB + node)*(depth+1), an "
          "error-or-small-value outcome and a zero balance after the value is dropped.",
          "DESIGN.md §6 C09", "TLA+ envelope + TLC trace validation of allocator ledgers"),
 "C10": m("MC_Ledger: the guard/unwinding machine releases every constructed element exactly once for every size, fault position and fault kind (named guard variants "
          "count_before / no_forget / no_guard yield counterexamples). Every initial state x container shape is emitted as a vector, the harness steers an instrumented "
          "element into that fault in the real decoder, and TLC validates the construction/drop ledger and the allocator balance.",
          "DESIGN.md §6 C10", "TLA+ ledger machine + TLC-enumerated fault vectors replayed + TLC trace validation"),
 "C18": m("skip must succeed exactly when Dec succeeds and advance exactly as far; DecodeLength::len must equal the specification's count.",
          "DESIGN.md §6 C18", "TLA+ spec + TLC trace validation of skip/len records"),
 "C19": m("Every CountedInput layer in a recorded stack must report exactly the bytes the bottom input delivered, after success and after failure.",
          "DESIGN.md §6 C19", "TLA+ spec + TLC trace validation of counted episodes"),
 "C20": m("The harness is built once per feature configuration (std+chain-error default, no_std, no_std+chain-error, with the optional integrations; thorough: "
          "11 configurations) and the same deterministic corpus of values and byte strings is run through each build; every build's records are validated by TLC "
          "against the one specification (which has no feature dimension) and compared across builds.",
          "DESIGN.md §6 C20", "TLA+ spec + TLC trace validation per feature configuration"),
}

PENDING = "check under construction in this session; will be claimed once quiet on the unchanged tree"
NOT_APPLICABLE = {}
