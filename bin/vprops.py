"""Per-property configuration of bin/vcheck: which MC_* instances TLC explores (direction A),
which traces the harness records and which trace specification validates them (direction B),
which TLC-generated vectors are replayed (direction C)."""

MC_FORMAT = dict(module="MC_Format", cfg="MC_Format.cfg", cfg_thorough="MC_Format_thorough.cfg", workers=8)


def trace(scale_q=1, scale_t=8, **kw):
    d = dict(kind="trace", scale=dict(quick=scale_q, thorough=scale_t))
    d.update(kw)
    return d


PROPS = {
    "C01": dict(level="model_checking", mc=[MC_FORMAT], steps=[trace()]),
    "C02": dict(level="model_checking", mc=[MC_FORMAT], steps=[trace(1, 4)]),
    "C03": dict(level="model_checking", mc=[MC_FORMAT], steps=[trace(2, 16)]),
    "C08": dict(level="model_checking", mc=[MC_FORMAT], steps=[trace(1, 2)]),
    "C11": dict(level="model_checking", mc=[MC_FORMAT], steps=[trace(1, 6)]),
    "C12": dict(level="model_checking", mc=[MC_FORMAT], steps=[trace(1, 4)]),
    "C14": dict(level="model_checking", mc=[MC_FORMAT], steps=[trace(2, 12)]),
    "C18": dict(level="model_checking", mc=[MC_FORMAT], steps=[trace(2, 12)]),
    "C19": dict(level="model_checking", mc=[MC_FORMAT], steps=[trace(1, 6)]),
}
