"""Per-property configuration of bin/vcheck: which MC_* instances TLC explores (direction A),
which traces the harness records and which trace specification validates them (direction B),
which TLC-generated vectors are replayed (direction C)."""

MC_FORMAT = dict(module="MC_Format", cfg="MC_Format.cfg", cfg_thorough="MC_Format_thorough.cfg", workers=8)


def trace(scale_q=1, scale_t=8, **kw):
    d = dict(kind="trace", scale=dict(quick=scale_q, thorough=scale_t))
    d.update(kw)
    return d


MC_COMPACT = dict(module="MC_Compact", cfg="MC_Compact.cfg", cfg_thorough="MC_Compact_thorough.cfg", workers=8)
GEN_COMPACT = dict(module="Gen_Compact", cfg="Gen_Compact.cfg", cfg_thorough="Gen_Compact_thorough.cfg")

MC_APPEND = dict(module="MC_Append", cfg="MC_Append.cfg", workers=4)
MC_CONTAINERS = dict(module="MC_Containers", cfg="MC_Containers.cfg", cfg_thorough="MC_Containers_thorough.cfg", workers=6)

PROPS = {
    "C06": dict(level="model_checking", mc=[MC_CONTAINERS], steps=[trace(1, 8)]),
    "C07": dict(level="model_checking", mc=[MC_FORMAT], steps=[trace(1, 4)]),
    "C15": dict(level="model_checking", mc=[MC_APPEND], steps=[trace(1, 6)]),
    "C16": dict(level="model_checking", mc=[MC_FORMAT], steps=[trace(1, 10)]),
    "C04": dict(level="model_checking", mc=[MC_COMPACT], steps=[
        dict(kind="gen_vectors", mc=GEN_COMPACT, out="cvec.ndjson"),
        trace(1, 1, tag="vec", args=["--part", "vec"], vectors="cvec.ndjson"),
        trace(1, 1, tag="exh", args=["--part", "exh"]),
        trace(1, 10, tag="rnd", args=["--part", "rnd"]),
    ], rule="exhaustive: every u8 and u16 value and every byte string of length <= 2 (thorough: length 3 with boundary third byte) through all five decoders; "
            "TLC-generated class-boundary value/string families for 32/64/128 bit; boundary-biased random values and mutated strings; "
            "non-trivial = at least one byte, distinct by (width, kind, bytes, value)"),
    "C01": dict(level="model_checking", mc=[MC_FORMAT], steps=[trace()]),
    "C02": dict(level="model_checking", mc=[MC_FORMAT], steps=[trace(1, 4)]),
    "C03": dict(level="model_checking", mc=[MC_FORMAT], steps=[trace(2, 16)]),
    "C08": dict(level="model_checking", mc=[MC_FORMAT], steps=[trace(1, 2)]),
    "C11": dict(level="model_checking", mc=[MC_FORMAT], steps=[trace(1, 6)]),
    "C12": dict(level="model_checking", mc=[MC_FORMAT], steps=[trace(1, 4)]),
    "C13": dict(level="model_checking", mc=[MC_FORMAT], steps=[trace(1, 10)]),
    "C14": dict(level="model_checking", mc=[MC_FORMAT], steps=[trace(2, 12)]),
    "C18": dict(level="model_checking", mc=[MC_FORMAT], steps=[trace(2, 12)]),
    "C19": dict(level="model_checking", mc=[MC_FORMAT], steps=[trace(1, 6)]),
}
