"""Per-property configuration of bin/vcheck: which MC_* instances TLC explores (direction A),
which traces the harness records and which trace specification validates them (direction B),
which TLC-generated vectors are replayed (direction C)."""

MC_FORMAT = dict(module="MC_Format", cfg="MC_Format.cfg", cfg_thorough="MC_Format_thorough.cfg", workers=8)


def trace(scale_q=1, scale_t=8, **kw):
    d = dict(kind="trace", scale=dict(quick=scale_q, thorough=scale_t))
    d.update(kw)
    return d


MC_COMPACT = dict(module="MC_Compact", cfg="MC_Compact.cfg", cfg_thorough="MC_Compact_thorough.cfg", workers=8)
GEN_COMPACT = dict(module="Gen_Compact", cfg="Gen_Compact.cfg", cfg_thorough="Gen_Compact_thorough.cfg")

MC_APPEND = dict(module="MC_Append", cfg="MC_Append.cfg", workers=4)
MC_CONTAINERS = dict(module="MC_Containers", cfg="MC_Containers.cfg", cfg_thorough="MC_Containers_thorough.cfg", workers=6)

MC_LEDGER = dict(module="MC_Ledger", cfg="MC_Ledger.cfg", cfg_thorough="MC_Ledger_thorough.cfg", workers=4)
GEN_LEDGER = dict(module="Gen_Ledger", cfg="Gen_Ledger.cfg")

MC_DERIVE = dict(module="MC_Derive", cfg="MC_Derive.cfg", cfg_thorough="MC_Derive_thorough.cfg", workers=8)
GEN_DERIVE = dict(module="Gen_Derive", cfg="Gen_Derive.cfg", cfg_thorough="Gen_Derive_thorough.cfg")

MC_DECODER = dict(module="MC_Decoder", cfg="MC_Decoder.cfg", cfg_thorough="MC_Decoder_thorough.cfg", workers=8, timeout=2400)

MC_ENCODER = dict(module="MC_Encoder", cfg="MC_Encoder.cfg", cfg_thorough="MC_Encoder_thorough.cfg", workers=6)

MC_BYTESCURSOR = dict(module="MC_BytesCursor", cfg="MC_BytesCursor.cfg", workers=2)

MC_IOADAPTERS = dict(module="MC_IoAdapters", cfg="MC_IoAdapters.cfg", workers=2)

MC_SKIP = dict(module="MC_Skip", cfg="MC_Skip.cfg", cfg_thorough="MC_Skip_thorough.cfg", workers=4)

MC_DECODER_LONG = dict(module="MC_Decoder", cfg="MC_Decoder_long.cfg", workers=8, timeout=2400, tiers=["thorough"])
MC_DECODER_CHUNK = dict(module="MC_Decoder", cfg="MC_Decoder_chunk.cfg", workers=8, timeout=3000, tiers=["thorough"])

PROPS = {
    "C20": dict(level="model_checking", mc=[MC_FORMAT], steps=[dict(kind="custom", fn="feature_builds")],
        rule="one deterministic corpus (the C01 values and the C03 byte strings of every type available in the configuration, fixed seed) through one build "
             "per feature configuration; each build's records validated by TLC against the same specification and compared across builds by (kind, type, case)"),
    "C05": dict(level="model_checking", mc=[MC_DERIVE],
        pre=[dict(kind="gen_vectors", mc=GEN_DERIVE, out="dlayout.ndjson", env={"WHAT": "layout"}),
             dict(kind="custom", fn="gen_rust_types", vectors="dlayout.ndjson", count=dict(quick=120, thorough=600))],
        steps=[trace(1, 3), dict(kind="custom", fn="restore_generated")],
        rule="type definitions enumerated by TLC over the bounded attribute grammar (shape x field attributes x index sources x skip), sampled by seed, "
             "compiled into the harness; records as for C01/C02/C03 on values of those types plus values in skipped variants; non-trivial = at least one byte"),
    "C17": dict(level="model_checking", mc=[MC_DERIVE],
        pre=[dict(kind="gen_vectors", mc=GEN_DERIVE, out="dreject.ndjson", env={"WHAT": "reject"})],
        steps=[dict(kind="custom", fn="derive_reject", vectors="dreject.ndjson", count=dict(quick=110, thorough=2500))],
        rule="enum definitions over {index attribute, explicit discriminant, implicit position, skip} with indices in {0,1,2,255,256,300}, enumerated by TLC, "
             "sampled by seed, each invalid one paired with a minimally different valid twin, plus the finite attribute-conflict / union / CompactAs / 256-vs-257 cases; "
             "each program is its own compilation target; distinct by definition"),
    "C09": dict(level="model_checking", mc=[MC_DECODER, MC_DECODER_CHUNK], steps=[trace(1, 3), dict(kind="apalache", module="Ind_Chunk")]),
    "C10": dict(level="fault_enumeration", mc=[MC_LEDGER],
        evidence_extra=dict(exhaustive_subspaces=["every (shape, size 0..4, fault position, fault kind) vector of the ledger machine, each replayed on the real decoder"]),
        steps=[
        dict(kind="gen_vectors", mc=GEN_LEDGER, out="lvec.ndjson"),
        trace(1, 1, tag="faults", vectors="lvec.ndjson"),
    ], rule="every (container shape x size 0..4 x fault position x fault kind in {input exhausted, malformed element, limit error, panic}) vector "
            "enumerated by TLC from the ledger machine, stretched to sizes 7 and 40; non-trivial = at least one element constructed or a fault injected, "
            "distinct by (shape, size, fault position, kind)"),
    "C06": dict(level="model_checking", mc=[MC_CONTAINERS], steps=[trace(1, 8)]),
    "C07": dict(level="model_checking", mc=[MC_ENCODER, MC_FORMAT, MC_IOADAPTERS], steps=[trace(1, 4)]),
    "C15": dict(level="model_checking", mc=[MC_APPEND], steps=[trace(1, 6)]),
    "C16": dict(level="model_checking", mc=[MC_FORMAT], steps=[trace(1, 10)]),
    "C04": dict(level="model_checking", mc=[MC_COMPACT],
        evidence_extra=dict(exhaustive_subspaces=[
            "every u8 and every u16 value through Compact encode / compact_len / using_encoded (real code and TLC)",
            "every byte string of length 0, 1 and 2 through all five Compact decoders (real code and TLC)",
            "MC_Compact: the same spaces plus 3-byte strings with a boundary third byte for the 8/16-bit decoders"]),
        steps=[
        dict(kind="gen_vectors", mc=GEN_COMPACT, out="cvec.ndjson"),
        trace(1, 1, tag="vec", args=["--part", "vec"], vectors="cvec.ndjson"),
        trace(1, 1, tag="exh", args=["--part", "exh"]),
        trace(1, 10, tag="rnd", args=["--part", "rnd"]),
    ], rule="exhaustive: every u8 and u16 value and every byte string of length <= 2 (thorough: length 3 with boundary third byte) through all five decoders; "
            "TLC-generated class-boundary value/string families for 32/64/128 bit; boundary-biased random values and mutated strings; "
            "non-trivial = at least one byte, distinct by (width, kind, bytes, value)"),
    "C01": dict(level="model_checking", mc=[MC_FORMAT], steps=[trace()]),
    "C02": dict(level="model_checking", mc=[MC_FORMAT], steps=[trace(1, 4)]),
    "C03": dict(level="model_checking", mc=[MC_DECODER, MC_DECODER_LONG, MC_COMPACT], steps=[trace(2, 16)]),
    "C08": dict(level="model_checking", mc=[MC_DECODER, MC_BYTESCURSOR, MC_IOADAPTERS], steps=[trace(1, 2)]),
    "C11": dict(level="model_checking", mc=[MC_DECODER], steps=[trace(1, 6), dict(kind="apalache", module="Ind_Depth")]),
    "C12": dict(level="model_checking", mc=[MC_DECODER], steps=[trace(1, 4), dict(kind="apalache", module="Ind_Mem")]),
    "C13": dict(level="model_checking", mc=[MC_FORMAT, MC_DERIVE, MC_SKIP], steps=[trace(1, 10)]),
    "C14": dict(level="model_checking", mc=[MC_FORMAT], steps=[trace(2, 12)]),
    "C18": dict(level="model_checking", mc=[MC_FORMAT, MC_SKIP], steps=[trace(2, 12)]),
    "C19": dict(level="model_checking", mc=[MC_DECODER], steps=[trace(1, 6), dict(kind="apalache", module="Ind_Count")]),
}
