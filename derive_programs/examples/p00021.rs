#![allow(dead_code)]
use parity_scale_codec::{Compact, Decode, Encode};
#[derive(Encode, Decode)]
pub enum T {
	#[codec(index = 300)] #[codec(skip)] V0,
	#[codec(index = 300)] V1,
	V2 = 2,
}
fn main() {}
