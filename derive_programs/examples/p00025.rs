#![allow(dead_code)]
use parity_scale_codec::{Compact, Decode, Encode};
#[derive(Encode, Decode)]
pub enum T {
	#[codec(skip)] V0 = 2,
	#[codec(skip)] V1 = 300,
	#[codec(index = 256)] V2,
}
fn main() {}
