#![allow(dead_code)]
use parity_scale_codec::{Compact, Decode, Encode};
#[derive(Encode, Decode)]
pub enum T {
	#[codec(skip)] V0 = 1,
	V1 = 256,
	#[codec(index = 256)] #[codec(skip)] V2,
}
fn main() {}
