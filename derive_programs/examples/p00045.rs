#![allow(dead_code)]
use parity_scale_codec::{Compact, Decode, Encode};
#[derive(Encode, Decode)]
pub enum T {
	#[codec(skip)] #[codec(index = 255)] V0,
	V1 = 300,
	#[codec(skip)] #[codec(index = 256)] V2,
}
fn main() {}
