#![allow(dead_code)]
use parity_scale_codec::{Compact, Decode, Encode};
#[derive(Encode, Decode)]
pub enum T {
	#[codec(index = 256)] #[codec(skip)] V0,
	#[codec(index = 256)] V1,
	#[codec(index = 0)] #[codec(skip)] V2,
}
fn main() {}
