#![allow(dead_code)]
use parity_scale_codec::{Compact, Decode, Encode};
#[derive(Encode, Decode)]
pub enum T {
	V0 = 300,
	V1 = 1,
	#[codec(index = 256)] #[codec(skip)] V2,
}
fn main() {}
