#![allow(dead_code)]
use parity_scale_codec::{Compact, Decode, Encode};
#[derive(Encode, Decode)]
pub enum T {
	#[codec(index = 300)] V0(u8),
	#[codec(index = 1)] #[codec(skip)] V1(u8),
	#[codec(index = 0)] V2,
}
fn main() {}
