#![allow(dead_code)]
use parity_scale_codec::{Compact, Decode, Encode};
#[derive(Encode, Decode)]
pub enum T {
	V0 = 300,
	#[codec(skip)] #[codec(index = 0)] V1,
	#[codec(index = 0)] #[codec(skip)] V2,
}
fn main() {}
