#![allow(dead_code)]
use parity_scale_codec::{Compact, Decode, Encode};
#[derive(Encode, Decode)]
pub enum T {
	#[codec(index = 0)] V0,
	#[codec(index = 255)] #[codec(skip)] V1,
	V2 = 2,
}
fn main() {}
