#![allow(dead_code)]
use parity_scale_codec::{Compact, Decode, Encode};
#[derive(Encode, Decode)]
pub enum T {
	#[codec(index = 2)] #[codec(skip)] V0,
	#[codec(index = 0)] V1,
	V2 = 256,
}
fn main() {}
