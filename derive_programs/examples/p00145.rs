#![allow(dead_code)]
use parity_scale_codec::{Compact, Decode, Encode};
#[derive(Encode, Decode)]
pub enum T {
	#[codec(index = 2)] V0,
	#[codec(index = 255)] #[codec(skip)] V1,
	#[codec(index = 2)] V2,
}
fn main() {}
