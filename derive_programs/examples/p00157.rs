#![allow(dead_code)]
use parity_scale_codec::{Compact, Decode, Encode};
#[derive(Encode, Decode)]
pub enum T {
	V0 = 256,
	V1 = 0,
	#[codec(index = 2)] #[codec(skip)] V2,
}
fn main() {}
