#![allow(dead_code)]
use parity_scale_codec::{Compact, Decode, Encode};
#[derive(Encode, Decode)]
pub enum T {
	#[codec(index = 256)] V0,
	#[codec(skip)] V1 = 1,
	#[codec(index = 2)] #[codec(skip)] V2,
}
fn main() {}
