#![allow(dead_code)]
use parity_scale_codec::{Compact, Decode, Encode};
#[derive(Encode, Decode)]
pub enum T {
	#[codec(skip)] V0 = 255,
	#[codec(index = 300)] V1,
	#[codec(index = 0)] #[codec(skip)] V2,
}
fn main() {}
