#![allow(dead_code)]
use parity_scale_codec::{Compact, Decode, Encode};
#[derive(Encode, Decode)]
pub enum T {
	V0,
	#[codec(index = 2)] V1,
	V2 = 2,
}
fn main() {}
