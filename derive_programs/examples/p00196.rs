#![allow(dead_code)]
use parity_scale_codec::{Compact, Decode, Encode};
#[derive(Encode, Decode)]
pub enum T {
	V0 = 1,
	#[codec(skip)] V1 = 255,
	#[codec(index = 256)] V2,
}
fn main() {}
