#![allow(dead_code)]
use parity_scale_codec::{Compact, Decode, Encode};
#[derive(Encode, Decode)]
pub enum T {
	#[codec(index = 256)] #[codec(skip)] V0,
	#[codec(skip)] V1 = 255,
	#[codec(skip)] V2 = 256,
}
fn main() {}
