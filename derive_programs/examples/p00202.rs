#![allow(dead_code)]
use parity_scale_codec::{Compact, Decode, Encode};
#[derive(Encode, Decode)]
pub enum T {
	V0 = 2,
	V1 = 255,
	#[codec(index = 256)] #[codec(skip)] V2,
}
fn main() {}
