#![allow(dead_code)]
use parity_scale_codec::{Compact, Decode, Encode};
#[derive(Encode, Decode)]
pub enum T {
	#[codec(index = 1)] V0,
	#[codec(index = 1)] #[codec(skip)] V1,
	#[codec(index = 0)] V2,
}
fn main() {}
