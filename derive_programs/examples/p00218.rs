#![allow(dead_code)]
use parity_scale_codec::{Compact, Decode, Encode};
#[derive(Encode, Decode)]
pub enum T {
	#[codec(skip)] V0 = 0,
	#[codec(index = 1)] #[codec(skip)] V1,
	#[codec(index = 2)] #[codec(skip)] V2,
}
fn main() {}
