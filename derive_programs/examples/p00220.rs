#![allow(dead_code)]
use parity_scale_codec::{Compact, Decode, Encode};
#[derive(Encode, Decode)]
pub enum T {
	#[codec(skip)] #[codec(index = 255)] V0,
	#[codec(index = 1)] #[codec(skip)] V1,
	V2 = 2,
}
fn main() {}
