#![allow(dead_code)]
use parity_scale_codec::{Compact, Decode, Encode};
#[derive(Encode, Decode)]
pub enum T {
	V0 = 0,
	#[codec(index = 255)] #[codec(skip)] V1,
	#[codec(skip)] V2 = 2,
}
fn main() {}
