#![allow(dead_code)]
use parity_scale_codec::{Compact, Decode, Encode};
#[derive(Encode, Decode)]
pub struct T { pub f0: u32, #[codec(skip)] #[codec(compact)] pub f1: u64 }
fn main() {}
