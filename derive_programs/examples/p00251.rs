#![allow(dead_code)]
use parity_scale_codec::{Compact, Decode, Encode};
#[derive(Encode, Decode)]
pub union T { a: u8, b: u16 }
fn main() {}
