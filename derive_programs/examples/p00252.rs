#![allow(dead_code)]
use parity_scale_codec::{Compact, Decode, Encode};
#[derive(parity_scale_codec::CompactAs)]
pub struct T { a: u32, #[codec(skip)] b: u8 }
fn main() {}
