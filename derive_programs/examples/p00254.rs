#![allow(dead_code)]
use parity_scale_codec::{Compact, Decode, Encode};
#[derive(parity_scale_codec::CompactAs)]
pub struct T { #[codec(skip)] a: u32 }
fn main() {}
