#![allow(dead_code)]
use parity_scale_codec::{Compact, Decode, Encode};
#[derive(parity_scale_codec::CompactAs)]
pub struct T(u32, #[codec(skip)] u32);
fn main() {}
