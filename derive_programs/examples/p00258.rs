#![allow(dead_code)]
use parity_scale_codec::{Compact, Decode, Encode};
#[derive(parity_scale_codec::CompactAs)]
pub struct T(u64, u64, u64);
fn main() {}
