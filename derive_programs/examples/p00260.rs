#![allow(dead_code)]
use parity_scale_codec::{Compact, Decode, Encode};
#[derive(Encode, Decode)]
pub struct T { #[codec(skip)] #[codec(compact)] pub f0: u32 }
fn main() {}
