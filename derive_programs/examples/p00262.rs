#![allow(dead_code)]
use parity_scale_codec::{Compact, Decode, Encode};
#[derive(Encode, Decode)]
pub struct T(#[codec(skip, compact)] pub u32);
fn main() {}
