#![allow(dead_code)]
use parity_scale_codec::{Compact, Decode, Encode};
#[derive(Encode, Decode)]
pub struct T { #[codec(compact)] pub f0: u32, #[codec(skip)] pub f1: u8 }
fn main() {}
