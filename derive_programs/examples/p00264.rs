#![allow(dead_code)]
use parity_scale_codec::{Compact, Decode, Encode};
#[derive(Encode, Decode)]
pub struct T(#[codec(encoded_as = "Compact<u64>")] pub u64);
fn main() {}
