//! Trace generators: drive the real codec and log what it did, one JSON record per line.
//! The verdict on every record is computed by TLC from the specification, never here.

use crate::mutate::mutate;
use crate::recin::{run_stack, RecIn, W};
use crate::reg::{bytes_json, digits, env_of, Reg};
use crate::rng::G;
use parity_scale_codec::{Decode, DecodeAll, DecodeLimit, Encode, Error, Input};
use serde_json::{json, Value};
use std::io::Write;
use std::panic::{catch_unwind, AssertUnwindSafe};

pub struct Ctx {
	pub prop: String,
	pub tier: String,
	pub seed: u64,
	pub out: Box<dyn Write>,
	pub records: u64,
	/// per-type sample budget multiplier
	pub scale: usize,
	pub type_filter: Option<String>,
	pub type_exact: Option<String>,
	pub listing: bool,
	pub per_type: std::collections::BTreeMap<String, u64>,
	pub stats: std::collections::BTreeMap<String, u64>,
}

impl Ctx {
	pub fn emit(&mut self, tn: &str, rec: Value) {
		writeln!(self.out, "{}", rec).expect("write trace");
		self.records += 1;
		*self.per_type.entry(tn.to_string()).or_insert(0) += 1;
	}
	pub fn stat(&mut self, k: &str) {
		*self.stats.entry(k.to_string()).or_insert(0) += 1;
	}
	pub fn wants(&self, tn: &str) -> bool {
		if self.listing {
			// `--list`: print the unit names of this property's corpus instead of running them
			println!("{}", tn);
			return false;
		}
		match (&self.type_filter, &self.type_exact) {
			(_, Some(f)) => tn == f.as_str(),
			(None, None) => true,
			(Some(f), None) => tn.contains(f.as_str()),
		}
	}
	pub fn rng_for(&self, tn: &str, salt: u64) -> G {
		let mut h: u64 = 0xcbf29ce484222325;
		for b in tn.bytes() {
			h = (h ^ b as u64).wrapping_mul(0x100000001b3);
		}
		G::new(self.seed.wrapping_mul(1_000_003).wrapping_add(h).wrapping_add(salt.wrapping_mul(0x9E3779B97F4A7C15)))
	}
}

pub fn guarded<R>(f: impl FnOnce() -> R) -> Result<R, ()> {
	catch_unwind(AssertUnwindSafe(f)).map_err(|_| ())
}

fn header<T: Reg>(kind: &str) -> serde_json::Map<String, Value> {
	let mut m = serde_json::Map::new();
	m.insert("k".into(), json!(kind));
	m.insert("tn".into(), json!(T::name()));
	m.insert("ty".into(), T::descr());
	m.insert("E".into(), env_of::<T>());
	m
}

/// element counts that straddle the decoder's 16 KiB preallocation window for this element size
pub fn window_lengths(elem_size: usize) -> Vec<usize> {
	let w = if elem_size == 0 { 16384 } else { 16384 / elem_size };
	let mut v = vec![];
	for k in [1usize, 2, 3] {
		for d in [-1i64, 0, 1] {
			let n = (w * k) as i64 + d;
			if n >= 0 {
				v.push(n as usize);
			}
		}
	}
	v
}

// ------------------------------------------------------------------ C01: enc records

pub fn drive_enc<T: Reg + Encode>(ctx: &mut Ctx) {
	let tn = T::name();
	if !ctx.wants(&tn) {
		return;
	}
	let mut g = ctx.rng_for(&tn, 1);
	let n = 40 * ctx.scale;
	for _ in 0..n {
		let v = T::gen(&mut g);
		emit_enc::<T>(ctx, &v);
	}
	// a few values with long outer collections (compact count classes, bulk paths)
	let d = T::descr();
	// long values only where the specification's check is linear (no sorting of heaps)
	let cheap = (d.get("t").map(|t| matches!(t.get("k").and_then(|k| k.as_str()), Some("int") | Some("unit") | Some("bool"))).unwrap_or(false)
		&& d.get("c").and_then(|c| c.as_str()) != Some("heap"))
		|| matches!(d.get("k").and_then(|k| k.as_str()), Some("str") | Some("bits"));
	let lens: &[usize] = match (cheap, ctx.tier == "thorough") {
		(true, true) => &[63, 64, 65, 300, 16383, 16384, 16385],
		(true, false) => &[64, 16384],
		(false, true) => &[63, 64, 65, 300],
		(false, false) => &[64],
	};
	for &l in lens {
		if let Some(v) = T::gen_len(&mut g, l) {
			emit_enc::<T>(ctx, &v);
		}
	}
}

fn emit_enc<T: Reg + Encode>(ctx: &mut Ctx, v: &T) {
	let mut m = header::<T>("enc");
	m.insert("v".into(), v.abs());
	match guarded(|| v.encode()) {
		Ok(out) => {
			m.insert("res".into(), json!("ok"));
			// short values also through the borrowing and the streaming entry points (the grammar holds for each)
			if out.len() <= 80 {
				m.insert("alts".into(), json!([
					alt("using", guarded(|| v.using_encoded(|b| b.to_vec()))),
					alt("direct", guarded(|| { let mut d = DirectSink(vec![], 0); v.encode_to(&mut d); d.0 })),
				]));
			}
			m.insert("out".into(), bytes_json(&out));
		},
		Err(()) => {
			m.insert("res".into(), json!("panic"));
			m.insert("out".into(), json!([]));
		},
	}
	ctx.emit(&T::name(), Value::Object(m));
}

/// the largest element count the format can represent (2^32 - 1) must encode without panicking; zero-sized
/// elements make it affordable (the implementation still iterates 2^32 - 1 times: seconds)
pub fn drive_enc_maxcount(ctx: &mut Ctx) {
	if !ctx.wants("Vec<()>") {
		return;
	}
	for n in [u32::MAX as usize, u32::MAX as usize - 1] {
		let v: Vec<()> = vec![(); n];
		let mut m = header::<Vec<()>>("enc");
		m.insert("v".into(), json!({"rep": digits(n as u128, 4)}));
		match guarded(|| v.encode()) {
			Ok(out) => { m.insert("res".into(), json!("ok")); m.insert("out".into(), bytes_json(&out)); },
			Err(()) => { m.insert("res".into(), json!("panic")); m.insert("out".into(), json!([])); },
		}
		ctx.emit("Vec<()>", Value::Object(m));
		if ctx.tier != "thorough" { break }
	}
}

/// bit sequences longer than 2^29 - 1 bits are rejected even when the data is there (64 MiB of it)
#[cfg(feature = "bit-vec")]
pub fn drive_bitcap(ctx: &mut Ctx) {
	use bitvec::{order::{Lsb0, Msb0}, vec::BitVec};
	if !ctx.wants("BitVec") {
		return;
	}
	fn one<T: Decode>(ctx: &mut Ctx, tn: &str, w: usize, nbits: u64) {
		let mut inp = vec![3u8];
		inp.extend_from_slice(&(nbits as u32).to_le_bytes());
		if nbits < (1 << 30) { inp = (((nbits as u32) << 2) | 2).to_le_bytes().to_vec(); }
		let head = inp.len();
		let payload = ((nbits as usize + 8 * w - 1) / (8 * w)) * w;
		inp.resize(head + payload + 3, 0);
		let mut s = &inp[..];
		let r = guarded(|| T::decode(&mut s));
		let res = match &r { Ok(Ok(_)) => "ok", Ok(Err(_)) => "err", Err(()) => "panic" };
		let consumed = inp.len() - s.len();
		drop(r);
		let rec = json!({"k":"bitcap","tn":tn,"w":w,"nbits":digits(nbits as u128, 8),"head":head,"payload":payload,"res":res,"n":consumed,"sig":[w, nbits]});
		ctx.emit(tn, rec);
	}
	let cap: u64 = (1 << 29) - 1;
	one::<BitVec<u8, Lsb0>>(ctx, "BitVec<u8,lsb0>", 1, cap);
	one::<BitVec<u8, Lsb0>>(ctx, "BitVec<u8,lsb0>", 1, cap + 1);
	one::<BitVec<u64, Msb0>>(ctx, "BitVec<u64,msb0>", 8, cap + 1);
	if ctx.tier == "thorough" {
		one::<BitVec<u64, Msb0>>(ctx, "BitVec<u64,msb0>", 8, cap);
		one::<BitVec<u32, Lsb0>>(ctx, "BitVec<u32,lsb0>", 4, cap + 65);
		one::<BitVec<u16, Msb0>>(ctx, "BitVec<u16,msb0>", 2, 1 << 30);
	}
}

// ------------------------------------------------------------------ C02: round trips

pub fn drive_rt<T: Reg + Encode + Decode>(ctx: &mut Ctx, elem_size: Option<usize>) {
	let tn = T::name();
	if !ctx.wants(&tn) {
		return;
	}
	let mut g = ctx.rng_for(&tn, 2);
	let n = 30 * ctx.scale;
	for _ in 0..n {
		let v = T::gen(&mut g);
		emit_rt::<T>(ctx, &mut g, &v);
	}
	// strings and bit sequences are bulk-read in 16 KiB chunks as well
	let kind = T::descr().get("k").and_then(|k| k.as_str()).map(|x| x.to_string()).unwrap_or_default();
	if elem_size.is_none() && (kind == "str" || kind == "bits") {
		let w = T::descr().get("w").and_then(|w| w.as_u64()).unwrap_or(1) as usize;
		let lens: Vec<usize> = if kind == "str" { vec![16383, 16390, 32790, 16384, 16385] } else { vec![16384 * 8 - 1, 16384 * 8, 16384 * 8 + 8 * w + 1] };
		let take = if ctx.tier == "thorough" { lens.len() } else { 2 };
		for l in lens.into_iter().skip(1).take(take) {
			if let Some(v) = T::gen_len(&mut g, l) {
				emit_rt::<T>(ctx, &mut g, &v);
			}
		}
	}
	if let Some(sz) = elem_size {
		let mut lens = window_lengths(sz);
		if ctx.tier != "thorough" {
			// quick: one below, at, one above the first window and the second window edge
			lens.truncate(4);
		}
		for l in lens {
			if let Some(v) = T::gen_len(&mut g, l) {
				emit_rt::<T>(ctx, &mut g, &v);
			}
		}
	}
}

/// std's RangeInclusive carries a hidden "exhausted" flag once iterated to the end; the value
/// decoded from its encoding compares unequal under `==` although start and end agree.
pub fn drive_rt_exhausted(ctx: &mut Ctx) {
	use core::ops::RangeInclusive;
	let tn = <RangeInclusive<i16>>::name();
	if !ctx.wants(&tn) { return }
	let mut r: RangeInclusive<i16> = 3..=5;
	for _ in r.by_ref() {}
	let out = r.encode();
	let d = <RangeInclusive<i16>>::decode(&mut &out[..]);
	let mut m = header::<RangeInclusive<i16>>("rt");
	m.insert("src".into(), json!("exhausted"));
	m.insert("v".into(), r.abs());
	m.insert("out".into(), bytes_json(&out));
	m.insert("tail".into(), json!([]));
	m.insert("rest".into(), json!([]));
	m.insert("n".into(), json!(out.len()));
	match d {
		Ok(d) => { m.insert("res".into(), json!("ok")); m.insert("dv".into(), d.abs()); m.insert("eq".into(), json!(d == r)); },
		Err(_) => { m.insert("res".into(), json!("err")); },
	}
	ctx.emit(&tn, Value::Object(m));
}

fn emit_rt<T: Reg + Encode + Decode>(ctx: &mut Ctx, g: &mut G, v: &T) {
	let mut m = header::<T>("rt");
	m.insert("v".into(), v.abs());
	let out = match guarded(|| v.encode()) {
		Ok(o) => o,
		Err(()) => {
			m.insert("res".into(), json!("panic"));
			ctx.emit(&T::name(), Value::Object(m));
			return;
		},
	};
	let tail: Vec<u8> = match g.below(4) {
		0 => vec![],
		1 => vec![0],
		2 => vec![255],
		_ => vec![1, 2, 3],
	};
	let mut buf = out.clone();
	buf.extend_from_slice(&tail);
	let mut slice = &buf[..];
	let r = guarded(|| T::decode(&mut slice));
	m.insert("out".into(), bytes_json(&out));
	m.insert("tail".into(), bytes_json(&tail));
	#[cfg(feature = "bytes")]
	{
		let b = bytes::Bytes::copy_from_slice(&buf);
		let rb = guarded(|| parity_scale_codec::decode_from_bytes::<T>(b));
		let (res, v) = res_json(&rb);
		m.insert("bres".into(), json!(res));
		m.insert("bdv".into(), v);
	}
	match r {
		Ok(Ok(d)) => {
			m.insert("res".into(), json!("ok"));
			m.insert("dv".into(), d.abs());
			m.insert("n".into(), json!(buf.len() - slice.len()));
			m.insert("rest".into(), bytes_json(slice));
		},
		Ok(Err(_)) => {
			m.insert("res".into(), json!("err"));
		},
		Err(()) => {
			m.insert("res".into(), json!("panic"));
		},
	}
	ctx.emit(&T::name(), Value::Object(m));
}

// ------------------------------------------------------------------ decode episodes

pub fn res_json<T: Reg>(r: &Result<Result<T, Error>, ()>) -> (String, Value) {
	match r {
		Ok(Ok(v)) => ("ok".into(), v.abs()),
		Ok(Err(_)) => ("err".into(), json!([])),
		Err(()) => ("panic".into(), json!([])),
	}
}

fn has_zero_elems(d: &Value) -> bool {
	match d {
		Value::Object(m) => {
			if m.get("k").and_then(|k| k.as_str()) == Some("seq") {
				if let Some(t) = m.get("t") {
					let k = t.get("k").and_then(|k| k.as_str());
					let empty_tuple = k == Some("tuple") && t.get("ts").and_then(|x| x.as_array()).map(|a| a.is_empty()).unwrap_or(false);
					let empty_array = k == Some("array") && t.get("n").and_then(|x| x.as_u64()) == Some(0);
					if k == Some("unit") || empty_tuple || empty_array || t.get("sz").and_then(|s| s.as_u64()) == Some(0) {
						return true;
					}
				}
			}
			m.values().any(has_zero_elems)
		},
		Value::Array(a) => a.iter().any(has_zero_elems),
		_ => false,
	}
}

/// types for which short inputs are enumerated exhaustively (the MC_Decoder universe and its neighbours):
/// at most three descriptor nodes, integer leaves of at most two bytes
fn small_alphabet(d: &Value) -> bool {
	fn nodes(d: &Value, wide: &mut bool) -> usize {
		match d {
			Value::Object(m) => {
				let own = if m.contains_key("k") { 1 } else { 0 };
				let k = m.get("k").and_then(|k| k.as_str()).unwrap_or("");
				if matches!(k, "int" | "nonzero" | "compact") && m.get("w").and_then(|w| w.as_u64()).unwrap_or(0) > 2 { *wide = true }
				if k == "duration" { *wide = true }
				own + m.values().map(|v| nodes(v, wide)).sum::<usize>()
			},
			Value::Array(a) => a.iter().map(|v| nodes(v, wide)).sum(),
			_ => 0,
		}
	}
	if d.get("k").and_then(|k| k.as_str()) == Some("named") { return true }
	let mut wide = false;
	let n = nodes(d, &mut wide);
	n <= 3 && !wide
}

/// Build the corpus of byte strings for a type: valid encodings and their mutations.
pub fn corpus<T: Reg + Encode>(ctx: &Ctx, g: &mut G, n: usize) -> Vec<(&'static str, Vec<u8>, bool)> {
	let zero = has_zero_elems(&T::descr()) || has_zero_elems(&env_of::<T>());
	let max_count: u64 = if zero { 1 << 16 } else { u64::MAX };
	let mut valid: Vec<Vec<u8>> = Vec::new();
	for _ in 0..(4 + n / 8) {
		let v = T::gen(g);
		if let Ok(b) = guarded(|| v.encode()) {
			valid.push(b);
		}
	}
	let mut out = Vec::new();
	for _ in 0..n {
		let (label, mut b) = mutate(g, &valid, max_count);
		if zero && !b.is_empty() && b[0] % 4 >= 2 {
			// keep claimed counts of zero-sized elements small: the decoder loops once per element
			b[0] &= 0xfd;
			if b[0] % 4 == 3 { b[0] &= 0xfc; }
		}
		out.push((label, b, false));
	}
	let _ = ctx;
	out
}

/// every strict prefix of a few valid encodings
pub fn prefixes<T: Reg + Encode>(g: &mut G, n_values: usize, max_len: usize) -> Vec<(&'static str, Vec<u8>, bool)> {
	let mut out = Vec::new();
	for _ in 0..n_values {
		let v = T::gen(g);
		if let Ok(b) = guarded(|| v.encode()) {
			if b.len() <= max_len {
				for cut in 0..b.len() {
					out.push(("prefix", b[..cut].to_vec(), true));
				}
			} else {
				for _ in 0..8 {
					let cut = g.below(b.len());
					out.push(("prefix", b[..cut].to_vec(), true));
				}
				out.push(("prefix", b[..b.len() - 1].to_vec(), true));
			}
		}
	}
	out
}

pub fn base_run<T: Reg + Decode>(inp: &[u8], known: bool) -> (Value, Option<(u64, u128, bool)>) {
	let mut ri = RecIn::new(inp, known);
	let r = guarded(|| T::decode(&mut ri));
	let (res, v) = res_json(&r);
	let ok = res == "ok";
	let j = json!({"res": res, "v": v, "n": ri.pos, "ev": ri.events_json(), "evo": ri.ev_overflow});
	(j, if ok { Some((ri.dmax as u64, ri.announced, ri.underflow)) } else { None })
}

fn run_json<T: Reg + Decode>(be: &str, st: &[W], inp: &[u8], seed: u64) -> Value {
	let stj: Vec<Value> = st.iter().map(|w| w.json()).collect();
	let mut consumed: Option<usize> = None;
	let mut obs = crate::recin::Obs::default();
	let r: Result<Result<T, Error>, ()> = match be {
		"slice" => {
			let mut s = inp;
			// no wrapper layer: decode statically, so that the back-end's own hooks are reachable
			let r = guarded(|| {
				if st.is_empty() { return (T::decode(&mut s), crate::recin::Obs::default()) }
				let (r, o) = run_stack::<T>(st, &mut s);
				(r, o)
			});
			consumed = Some(inp.len() - s.len());
			r.map(|(r, o)| {
				obs = o;
				r
			})
		},
		"rec" | "unk" => {
			let mut ri = RecIn::new(inp, be == "rec");
			let r = guarded(|| if st.is_empty() { (T::decode(&mut ri), crate::recin::Obs::default()) } else { run_stack::<T>(st, &mut ri) });
			consumed = Some(ri.pos);
			r.map(|(r, o)| {
				obs = o;
				r
			})
		},
		#[cfg(feature = "std")]
		"io" => {
			let mut io = parity_scale_codec::IoReader(std::io::Cursor::new(inp));
			let r = guarded(|| if st.is_empty() { (T::decode(&mut io), crate::recin::Obs::default()) } else { run_stack::<T>(st, &mut io) });
			consumed = Some(io.0.position() as usize);
			r.map(|(r, o)| {
				obs = o;
				r
			})
		},
		#[cfg(feature = "std")]
		"short" => {
			let mut io = parity_scale_codec::IoReader(crate::recin::ShortReader { data: inp, pos: 0, state: seed });
			let r = guarded(|| if st.is_empty() { (T::decode(&mut io), crate::recin::Obs::default()) } else { run_stack::<T>(st, &mut io) });
			consumed = Some(io.0.pos);
			r.map(|(r, o)| {
				obs = o;
				r
			})
		},
		#[cfg(feature = "bytes")]
		"bytes" => {
			let b = bytes::Bytes::copy_from_slice(inp);
			guarded(|| parity_scale_codec::decode_from_bytes::<T>(b))
		},
		_ => panic!("unknown backend {}", be),
	};
	let _ = seed;
	let (res, v) = res_json(&r);
	let mut m = serde_json::Map::new();
	m.insert("be".into(), json!(be));
	m.insert("st".into(), Value::Array(stj));
	m.insert("res".into(), json!(res));
	m.insert("v".into(), v);
	m.insert("n".into(), match consumed { Some(n) => json!(n), None => json!(-1) });
	m.insert("cnt".into(), Value::Array(obs.counts.iter().map(|c| digits(*c as u128, 8)).collect()));
	m.insert("used".into(), Value::Array(obs.used.iter().map(|c| digits(*c as u128, 8)).collect()));
	Value::Object(m)
}

/// Single wrapper layers applied statically (no type erasure), directly on a slice: the only way
/// generic hooks such as `scale_internal_decode_bytes` can be reached through a wrapper.
fn static_run_json<T: Reg + Decode>(kind: &str, inp: &[u8]) -> Value {
	let mut s = inp;
	let mut cnt: Vec<Value> = vec![];
	let mut used: Vec<Value> = vec![];
	let (st, r): (Value, Result<Result<T, Error>, ()>) = match kind {
		"sc" => {
			let mut c = parity_scale_codec::CountedInput::new(&mut s);
			let r = guarded(|| T::decode(&mut c));
			cnt.push(digits(c.count() as u128, 8));
			(json!([W::Counted.json()]), r)
		},
		"sm" => {
			let mut m = parity_scale_codec::MemTrackingInput::new(&mut s, usize::MAX);
			let r = guarded(|| T::decode(&mut m));
			used.push(digits(m.used_mem() as u128, 8));
			(json!([W::Mem(usize::MAX).json()]), r)
		},
		_ => {
			let r = guarded(|| T::decode_with_depth_limit(u32::MAX, &mut s));
			(json!([W::Depth(u32::MAX).json()]), r)
		},
	};
	let (res, v) = res_json(&r);
	json!({"be": "slice", "st": st, "res": res, "v": v, "n": inp.len() - s.len(), "cnt": cnt, "used": used})
}

const BACKENDS: &[&str] = &[
	"slice",
	"rec",
	"unk",
	#[cfg(feature = "std")]
	"io",
	#[cfg(feature = "std")]
	"short",
	#[cfg(feature = "bytes")]
	"bytes",
];

fn all_stacks(max_depth: u32) -> Vec<Vec<W>> {
	// all sequences of length <= 3 over {Counted, Depth(max), Mem(max)}
	let layers = [W::Counted, W::Depth(max_depth), W::Mem(usize::MAX)];
	let mut out: Vec<Vec<W>> = vec![vec![]];
	let mut frontier: Vec<Vec<W>> = vec![vec![]];
	for _ in 0..3 {
		let mut next = vec![];
		for s in &frontier {
			for l in &layers {
				let mut t = s.clone();
				t.push(l.clone());
				next.push(t);
			}
		}
		out.extend(next.iter().cloned());
		frontier = next;
	}
	out
}

/// One record per input with the runs the property needs.
pub fn drive_dec<T: Reg + Encode + Decode>(ctx: &mut Ctx, mem_tracking: bool) {
	let tn = T::name();
	if !ctx.wants(&tn) {
		return;
	}
	let prop = ctx.prop.clone();
	let mut g = ctx.rng_for(&tn, 3);
	let per = match prop.as_str() {
		"C08" => 12,
		"C11" | "C12" => 20,
		"C14" => 10,
		_ => 30,
	} * ctx.scale;
	let mut inputs = corpus::<T>(ctx, &mut g, per);
	if prop == "C14" || prop == "C03" {
		inputs.extend(prefixes::<T>(&mut g, 2 * ctx.scale, 48));
	}
	if (prop == "C03" || prop == "C05") && small_alphabet(&T::descr()) {
		// the universe of MC_Decoder: every string of length <= 3 over its boundary alphabet (quick), plus every
		// string of length <= 2 over all bytes (thorough) - exhaustive for types that look at few bytes
		let alpha: &[u8] = if ctx.tier == "thorough" { &[0, 1, 2, 3, 4, 8, 64, 252, 253, 255] } else { &[0, 1, 2, 4, 8, 253, 255] };
		inputs.push(("alpha", vec![], false));
		for a in alpha {
			inputs.push(("alpha", vec![*a], false));
			for b in alpha {
				inputs.push(("alpha", vec![*a, *b], false));
				for c in alpha {
					inputs.push(("alpha", vec![*a, *b, *c], false));
				}
			}
		}
		if ctx.tier == "thorough" && T::descr().get("k").and_then(|k| k.as_str()) != Some("seq") {
			for a in 0..=255u8 {
				inputs.push(("exh", vec![a], false));
				for b in 0..=255u8 {
					inputs.push(("exh", vec![a, b], false));
				}
			}
		}
	}
	if prop == "C12" || prop == "C09" || prop == "C08" || prop == "C03" {
		// values whose heap data exceeds one 16 KiB preallocation chunk / one tree node
		let d = T::descr();
		let kind = d.get("k").and_then(|k| k.as_str()).unwrap_or("");
		let lens: Vec<usize> = match kind {
			"seq" => {
				let sz = d.get("t").and_then(|t| t.get("sz")).and_then(|s| s.as_u64()).unwrap_or(1) as usize;
				let heap = d.get("c").and_then(|c| c.as_str()) == Some("heap");
				let cheap = matches!(d.get("t").and_then(|t| t.get("k")).and_then(|k| k.as_str()), Some("int") | Some("bool") | Some("unit"));
				if heap || !cheap { vec![40, 300] } else {
					let w = if sz == 0 { 16384 } else { 16384 / sz };
					if ctx.tier == "thorough" { vec![w - 1, w, w + 1, 2 * w + 1, 3 * w + 5] } else { vec![w + 1, 2 * w + 3] }
				}
			},
			"str" => vec![16385, 40000],
			"bits" => vec![16384 * 8 + 9],
			"set" | "map" => if ctx.tier == "thorough" { vec![10, 11, 12, 19, 20, 24, 29, 31, 40, 100, 240] } else { vec![12, 24, 29, 100] },
			_ => vec![],
		};
		for l in lens {
			if let Some(v) = T::gen_len(&mut g, l) {
				if let Ok(b) = guarded(|| v.encode()) {
					inputs.push(("big", b, false));
				}
			}
		}
	}
	let stacks = all_stacks(u32::MAX);
	for (label, inp, is_prefix) in inputs {
		let mut m = header::<T>("dec");
		m.insert("inp".into(), bytes_json(&inp));
		m.insert("src".into(), json!(label));
		m.insert("pfx".into(), json!(is_prefix));
		m.insert("mt".into(), json!(mem_tracking));
		m.insert("prop".into(), json!(prop));
		let (base, okinfo) = base_run::<T>(&inp, true);
		m.insert("base".into(), base);
		let mut runs: Vec<Value> = Vec::new();
		match prop.as_str() {
			"C03" => {
				runs.push(run_json::<T>("slice", &[], &inp, 0));
				runs.push(run_json::<T>("unk", &[], &inp, 0));
				#[cfg(feature = "bytes")]
				runs.push(run_json::<T>("bytes", &[], &inp, 0));
				// the std::io adapter, fed whole and in pieces of one to three bytes
				#[cfg(feature = "std")]
				{
					runs.push(run_json::<T>("io", &[], &inp, 0));
					runs.push(run_json::<T>("short", &[], &inp, g.u64()));
				}
			},
			"C14" => {
				// prefixes must be rejected, and values must end where they end, on every back-end
				for be in BACKENDS {
					runs.push(run_json::<T>(be, &[], &inp, g.u64()));
				}
			},
			"C08" => {
				// every back-end bare, plus every wrapper stack on a rotating back-end
				for be in BACKENDS {
					runs.push(run_json::<T>(be, &[], &inp, g.u64()));
				}
				for k in ["sc", "sm", "sd"] {
					runs.push(static_run_json::<T>(k, &inp));
				}
				let full = ctx.tier == "thorough";
				// multi-chunk values: the bare back-ends above and three stacks (the records are large)
				let nst = if label == "big" { 4 } else { stacks.len() };
				for (i, st) in stacks.iter().enumerate().take(nst).skip(1) {
					if full {
						for be in BACKENDS.iter().filter(|b| **b != "bytes") {
							runs.push(run_json::<T>(be, st, &inp, g.u64()));
						}
					} else {
						let bes: Vec<&&str> = BACKENDS.iter().filter(|b| **b != "bytes").collect();
						let be = bes[(i + g.below(bes.len())) % bes.len()];
						runs.push(run_json::<T>(be, st, &inp, g.u64()));
					}
				}
			},
			"C19" => {
				for be in ["slice", "rec", "unk"] {
					runs.push(run_json::<T>(be, &[W::Counted], &inp, 0));
				}
				runs.push(static_run_json::<T>("sc", &inp));
				runs.push(run_json::<T>("rec", &[W::Counted, W::Counted], &inp, 0));
				runs.push(run_json::<T>("unk", &[W::Depth(u32::MAX), W::Counted, W::Mem(usize::MAX)], &inp, 0));
			},
			"C11" => {
				let dobs = okinfo.map(|x| x.0).unwrap_or(3);
				for l in 0..=(dobs + 2).min(40) {
					runs.push(run_json::<T>("rec", &[W::Depth(l as u32)], &inp, 0));
				}
				runs.push(run_json::<T>("unk", &[W::Counted, W::Depth(dobs as u32)], &inp, 0));
				// the limiter underneath the other wrappers: every descent and ascent must reach it through them
				runs.push(run_json::<T>("rec", &[W::Depth(dobs as u32), W::Counted], &inp, 0));
				runs.push(run_json::<T>("unk", &[W::Depth(dobs as u32), W::Mem(usize::MAX), W::Counted], &inp, 0));
			},
			"C12" => {
				let u = okinfo.map(|x| x.1).unwrap_or(64);
				let ls: Vec<u128> = if u <= 512 && ctx.tier == "thorough" {
					// every limit: each value of L makes a different allocation the failing one
					(0..=u + 1).collect()
				} else if u <= 4096 && ctx.tier == "thorough" {
					let mut v: Vec<u128> = (0..=u + 1).step_by(((u / 96) as usize).max(1)).collect();
					v.extend([u - 1, u, u + 1]);
					v
				} else if u <= 64 {
					(0..=u + 1).collect()
				} else {
					let mut v = vec![0, 1, u / 2, u - 1, u, u + 1, u.saturating_mul(2)];
					for _ in 0..6 { v.push(g.below(u as usize + 2) as u128); }
					v
				};
				for l in ls {
					let l = if l > usize::MAX as u128 { usize::MAX } else { l as usize };
					runs.push(run_json::<T>("rec", &[W::Mem(l)], &inp, 0));
				}
				// the same wrapper applied statically on a slice (generic hooks are reachable only this way)
				for l in [1u128, u, u + 1] {
					let l = if l > usize::MAX as u128 { usize::MAX } else { l as usize };
					let mut s = &inp[..];
					let mut mi = parity_scale_codec::MemTrackingInput::new(&mut s, l);
					let r = guarded(|| T::decode(&mut mi));
					let used = mi.used_mem();
					let (res, v) = res_json(&r);
					runs.push(json!({"be":"slice","st":[W::Mem(l).json()],"res":res,"v":v,"n":inp.len() - s.len(),"cnt":[],"used":[digits(used as u128, 8)]}));
				}
				runs.push(run_json::<T>("rec", &[W::Mem(usize::MAX)], &inp, 0));
				// the public entry point takes the limit itself
				if let Some(f) = MLF.with(|m| m.get()) {
					for l in [u, u + 1, 1u128] {
						let l = if l > usize::MAX as u128 { usize::MAX } else { l as usize };
						runs.push(f(&inp, l, u));
					}
				}
			},
			_ => {},
		}
		m.insert("runs".into(), Value::Array(runs));
		if prop == "C11" {
			let mut s = &inp[..];
			let r = guarded(|| T::decode_all_with_depth_limit(u32::MAX, &mut s));
			let (res, v) = res_json(&r);
			m.insert("alld".into(), json!({"res":res,"v":v}));
		}
		if prop == "C14" {
			let mut s = &inp[..];
			let r = guarded(|| T::decode_all(&mut s));
			let (res, v) = res_json(&r);
			m.insert("all".into(), json!({"res":res,"v":v}));
			let mut s = &inp[..];
			let r = guarded(|| T::decode_all_with_depth_limit(u32::MAX, &mut s));
			let (res, v) = res_json(&r);
			m.insert("alld".into(), json!({"res":res,"v":v}));
		}
		if prop == "C18" {
			let mut s = &inp[..];
			let r = guarded(|| T::skip(&mut s));
			let res = match r { Ok(Ok(())) => "ok", Ok(Err(_)) => "err", Err(()) => "panic" };
			m.insert("skip".into(), json!({"res":res,"n":inp.len() - s.len()}));
		}
		ctx.emit(&tn, Value::Object(m));
	}
}

/// the `decode_with_mem_limit` entry point of a memory-tracking type (reachable only with the trait bound, so the type
/// list hands it over as a function pointer); `u` is the usage the base run observed
pub type MemLimitFn = fn(&[u8], usize, u128) -> Value;
thread_local! { pub static MLF: std::cell::Cell<Option<MemLimitFn>> = std::cell::Cell::new(None); }
pub fn mem_limit_entry<T: Reg + parity_scale_codec::DecodeWithMemTracking>(inp: &[u8], limit: usize, u: u128) -> Value {
	use parity_scale_codec::DecodeWithMemLimit;
	let mut s = inp;
	let r = guarded(|| T::decode_with_mem_limit(&mut s, limit));
	let (res, v) = res_json(&r);
	json!({"be":"slice","st":[W::Mem(limit).json()],"res":res,"v":v,"n":inp.len() - s.len(),"cnt":[],"used":[digits(u, 8)],"entry":"decode_with_mem_limit"})
}

/// C19: the counting input driven directly, over an input that only records what it is asked for, so that a single
/// read can be longer than 2^32 bytes without the data existing (the buffer is fresh zeroed memory that is never touched)
pub fn drive_cnt(ctx: &mut Ctx) {
	if !ctx.wants("CountedInput") {
		return;
	}
	struct LenOnly { budget: u64 }
	impl Input for LenOnly {
		fn remaining_len(&mut self) -> Result<Option<usize>, Error> { Ok(None) }
		fn read(&mut self, into: &mut [u8]) -> Result<(), Error> {
			if (into.len() as u64) > self.budget { return Err("Not enough data to fill buffer".into()) }
			self.budget -= into.len() as u64;
			Ok(())
		}
	}
	let big: u64 = (1 << 32) + 16;
	let plans: Vec<Vec<u64>> = vec![
		vec![1, 2, 70000, 0, 5],
		vec![3, big, 7],
		vec![(1 << 32) - 1, 1, 1 << 32],
		vec![5, 1 << 33, 9, big],          // the 2^33 read exceeds the budget and fails: it adds nothing
	];
	let mut g = ctx.rng_for("CountedInput", 23);
	for (pi, plan) in plans.iter().enumerate() {
		if ctx.tier != "thorough" && pi == 3 { continue }
		let r = guarded(|| {
			let mut inner = LenOnly { budget: (1u64 << 33) - 1 + g.below(1000) as u64 };
			let mut ci = parity_scale_codec::CountedInput::new(&mut inner);
			let mut ops = vec![];
			let mut counts = vec![];
			for &n in plan {
				let ok = if n == 1 && ops.len() % 2 == 1 { ci.read_byte().is_ok() } else {
					let mut buf = vec![0u8; n as usize];
					ci.read(&mut buf[..]).is_ok()
				};
				ops.push(json!([digits(n as u128, 8), ok]));
				counts.push(digits(ci.count() as u128, 8));
			}
			(ops, counts)
		});
		let rec = match r {
			Ok((ops, counts)) => json!({"k":"cnt","tn":"CountedInput","res":"ok","ops":ops,"counts":counts}),
			Err(()) => json!({"k":"cnt","tn":"CountedInput","res":"panic","ops":[],"counts":[]}),
		};
		ctx.emit("CountedInput", rec);
	}
}

/// consume a little of the input first so that positions are not always zero
pub fn _unused(_: &mut dyn Input) {}

// ------------------------------------------------------------------ C04: compact integers

pub mod compact {
	use super::*;
	use parity_scale_codec::{Compact, CompactLen, CompactRef};

	macro_rules! cenc {
		($ctx:expr, $t:ty, $w:expr, $v:expr) => {{
			let v: $t = $v;
			let r = guarded(|| {
				let out = Compact(v).encode();
				let clen = <Compact<$t> as CompactLen<$t>>::compact_len(&v);
				let uenc = CompactRef(&v).using_encoded(|b| b.to_vec());
				let mut to = Vec::new();
				CompactRef(&v).encode_to(&mut to);
				let sz = Compact(v).encoded_size();
				let hint = Compact(v).size_hint();
				(out, clen, uenc, to, sz, hint)
			});
			let rec = match r {
				Ok((out, clen, uenc, to, sz, hint)) => json!({"k":"cenc","tn":concat!("Compact<", stringify!($t), ">"),"w":$w,"res":"ok",
					"v":digits(v as u128, $w),"out":bytes_json(&out),"clen":clen,"uenc":bytes_json(&uenc),"to":bytes_json(&to),"size":sz,"hint":hint}),
				Err(()) => json!({"k":"cenc","tn":concat!("Compact<", stringify!($t), ">"),"w":$w,"res":"panic","v":digits(v as u128, $w)}),
			};
			$ctx.emit(concat!("Compact<", stringify!($t), ">"), rec);
		}};
	}
	macro_rules! cdec {
		($ctx:expr, $t:ty, $w:expr, $inp:expr) => {{
			let inp: &[u8] = $inp;
			let mut s = inp;
			let r = guarded(|| <Compact<$t>>::decode(&mut s));
			let rec = match r {
				Ok(Ok(c)) => json!({"k":"cdec","tn":concat!("Compact<", stringify!($t), ">"),"w":$w,"inp":bytes_json(inp),"res":"ok",
					"v":digits(c.0 as u128, $w),"n":inp.len() - s.len()}),
				Ok(Err(_)) => json!({"k":"cdec","tn":concat!("Compact<", stringify!($t), ">"),"w":$w,"inp":bytes_json(inp),"res":"err","v":[],"n":0}),
				Err(()) => json!({"k":"cdec","tn":concat!("Compact<", stringify!($t), ">"),"w":$w,"inp":bytes_json(inp),"res":"panic","v":[],"n":0}),
			};
			$ctx.emit(concat!("Compact<", stringify!($t), ">"), rec);
		}};
	}

	fn dec_all_widths(ctx: &mut Ctx, inp: &[u8]) {
		cdec!(ctx, u8, 1, inp);
		cdec!(ctx, u16, 2, inp);
		cdec!(ctx, u32, 4, inp);
		cdec!(ctx, u64, 8, inp);
		cdec!(ctx, u128, 16, inp);
	}
	fn enc_width(ctx: &mut Ctx, w: usize, v: u128) {
		match w {
			1 => cenc!(ctx, u8, 1, v as u8),
			2 => cenc!(ctx, u16, 2, v as u16),
			4 => cenc!(ctx, u32, 4, v as u32),
			8 => cenc!(ctx, u64, 8, v as u64),
			_ => cenc!(ctx, u128, 16, v),
		}
	}
	fn dec_width(ctx: &mut Ctx, w: usize, inp: &[u8]) {
		match w {
			1 => cdec!(ctx, u8, 1, inp),
			2 => cdec!(ctx, u16, 2, inp),
			4 => cdec!(ctx, u32, 4, inp),
			8 => cdec!(ctx, u64, 8, inp),
			_ => cdec!(ctx, u128, 16, inp),
		}
	}

	/// part: "exh" exhaustive u8/u16 values and all strings up to 2 bytes through every decoder;
	/// "vec" vectors written by TLC (Gen_Compact); "rnd" random values and mutated strings
	pub fn drive(ctx: &mut Ctx, part: &str) {
		match part {
			"exh" => {
				for v in 0..=255u32 {
					enc_width(ctx, 1, v as u128);
				}
				for v in 0..=65535u32 {
					enc_width(ctx, 2, v as u128);
				}
				dec_all_widths(ctx, &[]);
				for a in 0..=255u8 {
					dec_all_widths(ctx, &[a]);
				}
				for a in 0..=255u8 {
					for b in 0..=255u8 {
						dec_all_widths(ctx, &[a, b]);
					}
				}
				if ctx.tier == "thorough" {
					for a in 0..=255u8 {
						for b in 0..=255u8 {
							for c in crate::mutate::BOUNDARY {
								dec_all_widths(ctx, &[a, b, c]);
							}
						}
					}
				}
			},
			"vec" => {
				let path = std::env::var("VECTORS").expect("VECTORS");
				let text = std::fs::read_to_string(&path).expect("read vectors");
				for line in text.lines() {
					if line.trim().is_empty() { continue }
					let j: Value = serde_json::from_str(line).expect("vector json");
					let w = j["w"].as_u64().unwrap() as usize;
					if j["kind"] == "val" {
						let mut v: u128 = 0;
						for (i, d) in j["v"].as_array().unwrap().iter().enumerate() {
							v |= (d.as_u64().unwrap() as u128) << (8 * i);
						}
						enc_width(ctx, w, v);
						// and the round trip of what the implementation produced
						let out = match w { 1 => Compact(v as u8).encode(), 2 => Compact(v as u16).encode(), 4 => Compact(v as u32).encode(),
							8 => Compact(v as u64).encode(), _ => Compact(v).encode() };
						dec_width(ctx, w, &out);
					} else {
						let s: Vec<u8> = j["s"].as_array().unwrap().iter().map(|d| d.as_u64().unwrap() as u8).collect();
						dec_width(ctx, w, &s);
					}
				}
			},
			_ => {
				let mut g = ctx.rng_for("compact", 4);
				let n = 4000 * ctx.scale;
				for _ in 0..n {
					for w in [1usize, 2, 4, 8, 16] {
						let v = g.uint(8 * w as u32);
						enc_width(ctx, w, v);
						// decode the encoding under every width, with a tail
						let mut out = Compact(v).encode();
						if g.chance(1, 2) { out.push(g.byte()); }
						dec_all_widths(ctx, &out);
						// mutated / random strings
						let mut m = out.clone();
						match g.below(4) {
							0 => { if !m.is_empty() { let i = g.below(m.len()); m[i] = g.byte(); } },
							1 => { let cut = g.below(m.len() + 1); m.truncate(cut); },
							2 => { m[0] = g.u64() as u8; },
							_ => { let l = g.below(19); m = (0..l).map(|_| g.byte()).collect(); },
						}
						dec_width(ctx, w, &m);
					}
				}
			},
		}
	}
}

// ------------------------------------------------------------------ C13: declared lengths

#[cfg(feature = "max-encoded-len")]
pub fn drive_mel<T: Reg + Encode + parity_scale_codec::MaxEncodedLen>(ctx: &mut Ctx, cel: bool) {
	let tn = T::name();
	if !ctx.wants(&tn) {
		return;
	}
	let mut g = ctx.rng_for(&tn, 5);
	let decl = guarded(|| T::max_encoded_len());
	let mut best: Option<(T, Vec<u8>)> = None;
	let n = 60 * ctx.scale;
	for _ in 0..n {
		let v = T::gen(&mut g);
		if let Ok(b) = guarded(|| v.encode()) {
			if best.as_ref().map(|(_, bb)| b.len() > bb.len()).unwrap_or(true) {
				best = Some((v, b));
			}
		}
	}
	let mut m = header::<T>("mel");
	match decl {
		Ok(d) => {
			m.insert("res".into(), json!("ok"));
			m.insert("decl".into(), digits(d as u128, 8));
		},
		Err(()) => {
			m.insert("res".into(), json!("panic"));
			m.insert("decl".into(), digits(0, 8));
		},
	}
	m.insert("cel".into(), json!(cel));
	if let Some((v, b)) = best {
		m.insert("v".into(), v.abs());
		m.insert("out".into(), bytes_json(&b));
	}
	ctx.emit(&tn, Value::Object(m));
}

pub fn drive_fixed<T: Reg + Encode + Decode>(ctx: &mut Ctx) {
	let tn = T::name();
	if !ctx.wants(&tn) {
		return;
	}
	let mut m = header::<T>("fix");
	let f = guarded(|| T::encoded_fixed_size());
	match f {
		Ok(Some(n)) => { m.insert("res".into(), json!("ok")); m.insert("fixed".into(), json!(n)); },
		Ok(None) => { m.insert("res".into(), json!("ok")); m.insert("fixed".into(), json!(-1)); },
		Err(()) => { m.insert("res".into(), json!("panic")); m.insert("fixed".into(), json!(-1)); },
	}
	// a few values: every one must have the fixed size
	let mut g = ctx.rng_for(&tn, 6);
	let v = T::gen(&mut g);
	m.insert("v".into(), v.abs());
	m.insert("out".into(), bytes_json(&guarded(|| v.encode()).unwrap_or_default()));
	ctx.emit(&tn, Value::Object(m));
}


// ------------------------------------------------------------------ C18: DecodeLength

pub fn drive_len<T: Reg + Encode + parity_scale_codec::DecodeLength>(ctx: &mut Ctx, first: fn(&Value) -> Value) {
	let tn = T::name();
	if !ctx.wants(&tn) {
		return;
	}
	let mut g = ctx.rng_for(&tn, 7);
	let mut vals: Vec<T> = (0..(25 * ctx.scale)).map(|_| T::gen(&mut g)).collect();
	for l in [0usize, 1, 63, 64, 65, 16383, 16384] {
		if let Some(v) = T::gen_len(&mut g, l) {
			vals.push(v);
		}
	}
	for v in vals {
		let mut m = header::<T>("len");
		let out = match guarded(|| v.encode()) { Ok(o) => o, Err(()) => continue };
		let a = v.abs();
		// the collection whose count is peeked: the value itself or the first tuple member
		m.insert("coll".into(), first(&a));
		let r = guarded(|| T::len(&out));
		match r {
			Ok(Ok(n)) => { m.insert("res".into(), json!("ok")); m.insert("n".into(), digits(n as u128, 8)); },
			Ok(Err(_)) => { m.insert("res".into(), json!("err")); m.insert("n".into(), digits(0, 8)); },
			Err(()) => { m.insert("res".into(), json!("panic")); m.insert("n".into(), digits(0, 8)); },
		}
		// keep the record small: only the first bytes matter for the count
		m.insert("out".into(), bytes_json(&out[..out.len().min(8)]));
		ctx.emit(&tn, Value::Object(m));
	}
}

// ------------------------------------------------------------------ C07: entry points

/// Output that is not an io::Write (takes the direct `impl Output` route)
pub struct DirectSink(pub Vec<u8>, pub usize);
impl parity_scale_codec::Output for DirectSink {
	fn write(&mut self, bytes: &[u8]) {
		self.1 += 1;
		self.0.extend_from_slice(bytes);
	}
}
/// io::Write sink that accepts at most 3 bytes per `write` call (write_all must loop)
#[cfg(feature = "std")]
pub struct IoSink(pub Vec<u8>);
#[cfg(feature = "std")]
impl std::io::Write for IoSink {
	fn write(&mut self, buf: &[u8]) -> std::io::Result<usize> {
		let n = buf.len().min(3);
		self.0.extend_from_slice(&buf[..n]);
		Ok(n)
	}
	fn flush(&mut self) -> std::io::Result<()> {
		Ok(())
	}
}

pub fn alt(kind: &str, r: Result<Vec<u8>, ()>) -> Value {
	match r {
		Ok(b) => json!({"kind": kind, "res": "ok", "out": bytes_json(&b)}),
		Err(()) => json!({"kind": kind, "res": "panic", "out": []}),
	}
}

pub fn entry_points<T: Encode>(v: &T) -> Vec<Value> {
	let mut alts = vec![];
	alts.push(alt("to_vec", guarded(|| {
		// into a vector that already holds data: the encoding must be appended
		let mut d = vec![9u8, 9, 9];
		v.encode_to(&mut d);
		d.split_off(3)
	})));
	alts.push(alt("direct", guarded(|| {
		let mut d = DirectSink(vec![], 0);
		v.encode_to(&mut d);
		d.0
	})));
	#[cfg(feature = "std")]
	alts.push(alt("io", guarded(|| {
		let mut d = IoSink(vec![]);
		v.encode_to(&mut d);
		d.0
	})));
	alts.push(alt("dyn", guarded(|| {
		let mut d = DirectSink(vec![], 0);
		{
			let o: &mut dyn parity_scale_codec::Output = &mut d;
			v.encode_to(o);
		}
		d.0
	})));
	alts.push(alt("using", guarded(|| v.using_encoded(|b| b.to_vec()))));
	alts.push(alt("twice", guarded(|| v.encode())));
	match guarded(|| v.encoded_size()) {
		Ok(n) => alts.push(json!({"kind":"size","res":"ok","n":n})),
		Err(()) => alts.push(json!({"kind":"size","res":"panic","n":0})),
	}
	alts
}

/// Joiner / KeyedVec (outside the listed properties, part of the crate's encoding surface): `prefix.and(&v)` and
/// `v.to_keyed_vec(prefix)` are the prefix followed by the encoding of v.
pub fn drive_join<T: Reg + Encode + Decode>(ctx: &mut Ctx) {
	use parity_scale_codec::{Joiner, KeyedVec};
	let tn = T::name();
	if !ctx.wants(&tn) {
		return;
	}
	let mut g = ctx.rng_for(&tn, 21);
	for _ in 0..(3 * ctx.scale) {
		let v = T::gen(&mut g);
		let pre: Vec<u8> = (0..g.below(5)).map(|_| g.byte()).collect();
		let mut m = header::<T>("join");
		m.insert("v".into(), v.abs());
		m.insert("pre".into(), bytes_json(&pre));
		let a = guarded(|| pre.clone().and(&v));
		let b = guarded(|| v.to_keyed_vec(&pre));
		m.insert("res".into(), json!(if a.is_ok() && b.is_ok() { "ok" } else { "panic" }));
		m.insert("and".into(), bytes_json(&a.unwrap_or_default()));
		m.insert("keyed".into(), bytes_json(&b.unwrap_or_default()));
		m.insert("out".into(), bytes_json(&pre));
		ctx.emit(&tn, Value::Object(m));
	}
}

pub fn drive_entries<T: Reg + Encode>(ctx: &mut Ctx) {
	let tn = T::name();
	if !ctx.wants(&tn) {
		return;
	}
	let mut g = ctx.rng_for(&tn, 8);
	let mut vals: Vec<T> = (0..(12 * ctx.scale)).map(|_| T::gen(&mut g)).collect();
	if let Some(v) = T::gen_len(&mut g, 70) {
		vals.push(v);
	}
	for v in vals {
		let mut m = header::<T>("enc");
		m.insert("v".into(), v.abs());
		match guarded(|| v.encode()) {
			Ok(out) => {
				m.insert("res".into(), json!("ok"));
				m.insert("out".into(), bytes_json(&out));
			},
			Err(()) => {
				m.insert("res".into(), json!("panic"));
				m.insert("out".into(), json!([]));
			},
		}
		m.insert("alts".into(), Value::Array(entry_points(&v)));
		ctx.emit(&tn, Value::Object(m));
	}
}

// ------------------------------------------------------------------ C16: EncodeLike pairs

pub fn assert_like<A: parity_scale_codec::EncodeLike<B>, B: Encode>() {}

/// `a` is declared to encode like the `B`-value `b`: log a's bytes against B's descriptor and
/// what B's decoder makes of them.
pub fn emit_like<A: Encode, B: Reg + Decode>(ctx: &mut Ctx, family: &str, a: &A, b: &B) {
	let mut m = header::<B>("like");
	m.insert("family".into(), json!(family));
	m.insert("v".into(), b.abs());
	let out = match guarded(|| a.encode()) {
		Ok(o) => o,
		Err(()) => {
			m.insert("res".into(), json!("panic"));
			ctx.emit(family, Value::Object(m));
			return;
		},
	};
	m.insert("res".into(), json!("ok"));
	m.insert("out".into(), bytes_json(&out));
	let mut s = &out[..];
	let r = guarded(|| B::decode(&mut s));
	let (res, v) = res_json(&r);
	m.insert("dres".into(), json!(res));
	m.insert("dv".into(), v);
	m.insert("dn".into(), json!(out.len() - s.len()));
	#[cfg(feature = "bytes")]
	{
		let bb = bytes::Bytes::copy_from_slice(&out);
		let rb = guarded(|| parity_scale_codec::decode_from_bytes::<B>(bb));
		let (res, v) = res_json(&rb);
		m.insert("bres".into(), json!(res));
		m.insert("bdv".into(), v);
	}
	m.insert("alts".into(), Value::Array(entry_points(a)));
	ctx.emit(family, Value::Object(m));
}

#[macro_export]
macro_rules! like {
	($ctx:expr, $family:expr, $A:ty => $Bdecl:ty, $B:ty, |$b:ident| $a:expr) => {{
		$crate::drivers::assert_like::<$A, $Bdecl>();
		let mut g = $ctx.rng_for($family, 9);
		for _ in 0..(15 * $ctx.scale) {
			#[allow(unused_mut)]
			let mut $b: $B = <$B as $crate::reg::Reg>::gen(&mut g);
			let a: $A = $a;
			$crate::drivers::emit_like::<$A, $B>($ctx, $family, &a, &$b);
		}
	}};
}

// ------------------------------------------------------------------ C15: EncodeAppend histories

pub mod append {
	use super::*;
	use parity_scale_codec::{EncodeAppend, EncodeLike};

	fn ref_compact(n: u64) -> Vec<u8> {
		// the format's count prefix, written from its definition (independent of the crate)
		if n < 1 << 6 { vec![(n as u8) << 2] }
		else if n < 1 << 14 { (((n as u16) << 2) | 1).to_le_bytes().to_vec() }
		else if n < 1 << 30 { (((n as u32) << 2) | 2).to_le_bytes().to_vec() }
		else { let mut v = vec![3u8]; v.extend_from_slice(&(n as u32).to_le_bytes()); v }
	}

	pub fn step_json(batch_abs: Value, r: Result<Result<Vec<u8>, Error>, ()>, keep: &mut Option<Vec<u8>>) -> Value {
		match r {
			Ok(Ok(out)) => {
				let j = json!({"b": batch_abs, "res": "ok", "out": bytes_json(&out)});
				*keep = Some(out);
				j
			},
			Ok(Err(_)) => { *keep = None; json!({"b": batch_abs, "res": "err", "out": []}) },
			Err(()) => { *keep = None; json!({"b": batch_abs, "res": "panic", "out": []}) },
		}
	}

	/// histories over a collection type C with items T; `form` selects the EncodeLike form of the items
	pub fn drive_items<C, T>(ctx: &mut Ctx, cname: &str)
	where
		C: EncodeAppend<Item = T> + Reg,
		T: Reg + Encode + Clone + EncodeLike<T>,
		for<'a> &'a T: EncodeLike<T>,
		Box<T>: EncodeLike<T>,
	{
		let tn = format!("{}::append", cname);
		if !ctx.wants(&tn) { return }
		let mut g = ctx.rng_for(&tn, 10);
		let starts: Vec<usize> = vec![0, 0, 1, 2, 61, 62, 63, 64, 65];
		for h in 0..(10 * ctx.scale) {
			let mut m = header::<C>("app");
			m.insert("tn".into(), json!(tn));
			let nstart = *g.pick(&starts);
			let start_items: Vec<T> = g.nested(|g| (0..nstart).map(|_| T::gen(g)).collect());
			let from_empty = h % 3 == 0;
			let mut cur: Vec<u8> = if from_empty { vec![] } else {
				let mut b = ref_compact(nstart as u64);
				for it in &start_items { b.extend_from_slice(&it.encode()); }
				b
			};
			m.insert("start".into(), bytes_json(&cur));
			m.insert("sv".into(), if from_empty { json!([]) } else { Value::Array(start_items.iter().map(|x| x.abs()).collect()) });
			m.insert("garbage".into(), json!(false));
			let mut steps = vec![];
			for s in 0..(1 + g.below(4)) {
				let bn = *g.pick(&[0usize, 1, 1, 2, 3, 5]);
				let batch: Vec<T> = g.nested(|g| (0..bn).map(|_| T::gen(g)).collect());
				let babs = Value::Array(batch.iter().map(|x| x.abs()).collect());
				let mut keep = None;
				let input = cur.clone();
				let j = match (h + s) % 3 {
					0 => step_json(babs, guarded(|| C::append_or_new(input, batch.iter())), &mut keep),
					1 => step_json(babs, guarded(|| C::append_or_new(input, batch.iter().cloned().map(Box::new).collect::<Vec<_>>())), &mut keep),
					_ => step_json(babs, guarded(|| C::append_or_new(input, batch.clone())), &mut keep),
				};
				steps.push(j);
				match keep { Some(o) => cur = o, None => break }
			}
			m.insert("steps".into(), Value::Array(steps));
			ctx.emit(&tn, Value::Object(m));
		}
		// garbage prefixes
		for gb in [vec![1u8], vec![2, 0], vec![3, 0, 0, 0, 0], vec![7, 0, 0, 0, 0, 1], vec![253, 0], vec![255], vec![1, 0], vec![2, 0, 0, 0]] {
			let mut m = header::<C>("app");
			m.insert("tn".into(), json!(tn));
			m.insert("start".into(), bytes_json(&gb));
			m.insert("sv".into(), json!([]));
			m.insert("garbage".into(), json!(true));
			// a garbage prefix is refused whatever the batch, also an empty one
			let batch: Vec<T> = (0..(gb.len() % 2)).map(|_| T::gen(&mut g)).collect();
			let mut keep = None;
			let j = step_json(Value::Array(batch.iter().map(|x| x.abs()).collect()), guarded(|| C::append_or_new(gb.clone(), batch.iter())), &mut keep);
			m.insert("steps".into(), json!([j]));
			ctx.emit(&tn, Value::Object(m));
		}
	}

	/// zero-sized items: counts on and around every prefix-width change and the 2^32 limit
	pub fn drive_units<C>(ctx: &mut Ctx, cname: &str)
	where
		C: EncodeAppend<Item = ()> + Reg,
	{
		let tn = format!("{}::append", cname);
		if !ctx.wants(&tn) { return }
		let big = ctx.tier == "thorough";
		let p30: u64 = 1 << 30;
		let p32: u64 = 1 << 32;
		// (start count or None for an empty buffer, batch sizes)
		let mut cases: Vec<(Option<u64>, Vec<u64>)> = vec![
			(None, vec![0, 1, 63, 1]), (None, vec![64, 16319, 1]), (None, vec![16383, 1, 1]), (None, vec![16384]),
			(Some(0), vec![1, 62, 1, 1]), (Some(63), vec![0, 1]), (Some(62), vec![2]), (Some(16382), vec![1, 1, 1]),
			(Some(16383), vec![1]), (Some(16380), vec![5]),
			(Some(p30 - 2), vec![1, 1, 1]), (Some(p30 - 1), vec![1]), (Some(p30 - 1), vec![0, 2]), (Some(p30), vec![1]),
			(Some(p32 - 3), vec![1, 1, 1]), (Some(p32 - 2), vec![2]), (Some(p32 - 1), vec![0, 1]), (Some(p32 - 1), vec![1]),
		];
		if big {
			// batches of 2^30 .. 2^32 items really are iterated by the implementation (seconds each)
			cases.extend(vec![
				(Some(5), vec![p30 - 6, 1]), (Some(1), vec![p30]),
				(Some(1), vec![p32]), (Some(0), vec![p32 - 1, 1]), (Some(1), vec![p32 - 1]), (None, vec![p32 - 1, 1]),
				(None, vec![p32]), (Some(4), vec![p32 + 1]), (Some(p30), vec![3 * p30, 1]),
			]);
		} else {
			// refused without iterating: the batch size itself does not fit
			cases.extend(vec![(Some(1), vec![p32]), (None, vec![p32]), (Some(p32 - 1), vec![p32 + 1]), (Some(0), vec![p32]),
				(Some(p32 - 1), vec![p30 + 1]), (Some(p30), vec![3 * p30]), (Some(p32 - 2), vec![p32 - 1])]);
		}
		for (start, batches) in cases {
			let mut m = header::<C>("app");
			m.insert("tn".into(), json!(tn));
			let mut cur: Vec<u8> = match start { None => vec![], Some(n) => ref_compact(n) };
			m.insert("start".into(), bytes_json(&cur));
			m.insert("sv".into(), json!({"rep": digits(start.unwrap_or(0) as u128, 8)}));
			m.insert("garbage".into(), json!(false));
			let mut steps = vec![];
			for bn in batches {
				let babs = json!({"rep": digits(bn as u128, 8)});
				let mut keep = None;
				let input = cur.clone();
				let n = bn as usize;
				let j = step_json(babs, guarded(|| C::append_or_new(input, (0..n).map(|_| ()))), &mut keep);
				steps.push(j);
				match keep { Some(o) => cur = o, None => break }
			}
			m.insert("steps".into(), Value::Array(steps));
			ctx.emit(&tn, Value::Object(m));
		}
	}
}

// ------------------------------------------------------------------ C06: construction histories

pub mod hist {
	use super::*;
	use std::collections::{BTreeMap, BTreeSet, BinaryHeap, LinkedList, VecDeque};

	fn emit<T: Reg>(ctx: &mut Ctx, ops: Vec<Value>, outs: Vec<Value>, slices: Vec<Value>) {
		let mut m = header::<T>("hist");
		m.insert("ops".into(), Value::Array(ops));
		m.insert("outs".into(), Value::Array(outs));
		m.insert("sl".into(), Value::Array(slices));
		ctx.emit(&T::name(), Value::Object(m));
	}
	fn enc2<T: Encode>(v: &T) -> Value {
		// encode twice: the same value must give the same bytes
		let a = guarded(|| v.encode()).unwrap_or_else(|_| vec![0xde, 0xad]);
		let b = guarded(|| v.encode()).unwrap_or_else(|_| vec![0xbe, 0xef]);
		if a == b { bytes_json(&a) } else { json!(["nondeterministic"]) }
	}

	pub fn deque<T: Reg + Encode + Clone>(ctx: &mut Ctx) where VecDeque<T>: Reg {
		let tn = <VecDeque<T>>::name();
		if !ctx.wants(&tn) { return }
		let mut g = ctx.rng_for(&tn, 11);
		for _ in 0..(6 * ctx.scale) {
			let mut d: VecDeque<T> = if g.chance(1, 2) { VecDeque::new() } else { VecDeque::with_capacity(1 + g.below(8)) };
			let (mut ops, mut outs) = (vec![], vec![]);
			let n = 10 + g.below(30);
			for _ in 0..n {
				let op = match g.below(16) {
					0..=3 => { let x = g.nested(T::gen); let j = json!(["pb", x.abs()]); d.push_back(x); j },
					4..=6 => { let x = g.nested(T::gen); let j = json!(["pf", x.abs()]); d.push_front(x); j },
					7 => { d.pop_back(); json!(["ob"]) },
					8 => { d.pop_front(); json!(["of"]) },
					9 => { let k = g.below(d.len() + 1); d.rotate_left(k); json!(["rl", k]) },
					10 => { let k = g.below(d.len() + 1); d.rotate_right(k); json!(["rr", k]) },
					11 => { d.make_contiguous(); json!(["mc"]) },
					12 => { let k = g.below(20); d.reserve(k); json!(["rs", k]) },
					13 => { if g.chance(1, 2) { d.shrink_to_fit(); json!(["sh"]) } else { let k = g.below(d.len() + 2); d.truncate(k); json!(["tr", k]) } },
					14 => { let i = g.below(d.len() + 1); let x = g.nested(T::gen); let j = json!(["in", i, x.abs()]); d.insert(i, x); j },
					_ => {
						if d.len() >= 2 && g.chance(1, 2) { let (i, j) = (g.below(d.len()), g.below(d.len())); d.swap(i, j); json!(["sw", i, j]) }
						else if !d.is_empty() { let i = g.below(d.len()); d.remove(i); json!(["rm", i]) }
						else { json!(["mc"]) }
					},
				};
				ops.push(op);
				outs.push(enc2(&d));
			}
			emit::<VecDeque<T>>(ctx, ops, outs, vec![]);
		}
	}

	pub fn vector<T: Reg + Encode + Clone>(ctx: &mut Ctx) where Vec<T>: Reg {
		let tn = <Vec<T>>::name();
		if !ctx.wants(&tn) { return }
		let mut g = ctx.rng_for(&tn, 12);
		for _ in 0..(3 * ctx.scale) {
			let mut d: Vec<T> = Vec::new();
			let (mut ops, mut outs) = (vec![], vec![]);
			for _ in 0..(8 + g.below(20)) {
				let op = match g.below(8) {
					0..=2 => { let x = g.nested(T::gen); let j = json!(["pb", x.abs()]); d.push(x); j },
					3 => { d.pop(); json!(["ob"]) },
					4 => { let k = g.below(40); d.reserve(k); json!(["rs", k]) },
					5 => { d.shrink_to_fit(); json!(["sh"]) },
					6 => { let k = g.below(d.len() + 2); d.truncate(k); json!(["tr", k]) },
					_ => { let i = g.below(d.len() + 1); let x = g.nested(T::gen); let j = json!(["in", i, x.abs()]); d.insert(i, x); j },
				};
				ops.push(op);
				outs.push(enc2(&d));
			}
			emit::<Vec<T>>(ctx, ops, outs, vec![]);
		}
	}

	pub fn list<T: Reg + Encode + Clone>(ctx: &mut Ctx) where LinkedList<T>: Reg {
		let tn = <LinkedList<T>>::name();
		if !ctx.wants(&tn) { return }
		let mut g = ctx.rng_for(&tn, 13);
		for _ in 0..(3 * ctx.scale) {
			let mut d: LinkedList<T> = LinkedList::new();
			let (mut ops, mut outs) = (vec![], vec![]);
			for _ in 0..(8 + g.below(20)) {
				let op = match g.below(7) {
					0 | 1 => { let x = g.nested(T::gen); let j = json!(["pb", x.abs()]); d.push_back(x); j },
					2 | 3 => { let x = g.nested(T::gen); let j = json!(["pf", x.abs()]); d.push_front(x); j },
					4 => { d.pop_back(); json!(["ob"]) },
					5 => { let i = g.below(d.len() + 1); let _ = d.split_off(i); json!(["so", i]) },
					_ => { let xs: Vec<T> = g.nested(|g| (0..g.below(3)).map(|_| T::gen(g)).collect());
						let j = json!(["ap", xs.iter().map(|x| x.abs()).collect::<Vec<_>>()]); let mut o: LinkedList<T> = xs.into_iter().collect(); d.append(&mut o); j },
				};
				ops.push(op);
				outs.push(enc2(&d));
			}
			emit::<LinkedList<T>>(ctx, ops, outs, vec![]);
		}
	}

	pub fn map<K: Reg + Encode + Ord + Clone, V: Reg + Encode + Clone>(ctx: &mut Ctx) where BTreeMap<K, V>: Reg {
		let tn = <BTreeMap<K, V>>::name();
		if !ctx.wants(&tn) { return }
		let mut g = ctx.rng_for(&tn, 14);
		for _ in 0..(4 * ctx.scale) {
			let mut d: BTreeMap<K, V> = BTreeMap::new();
			let mut keys: Vec<K> = vec![];
			let (mut ops, mut outs) = (vec![], vec![]);
			for _ in 0..(8 + g.below(25)) {
				let op = if g.chance(2, 3) || keys.is_empty() {
					let k = if !keys.is_empty() && g.chance(1, 3) { g.pick(&keys).clone() } else { g.nested(K::gen) };
					let v = g.nested(V::gen);
					let j = json!(["mi", k.abs(), v.abs()]);
					keys.push(k.clone());
					d.insert(k, v);
					j
				} else {
					let k = g.pick(&keys).clone();
					d.remove(&k);
					json!(["mr", k.abs()])
				};
				ops.push(op);
				outs.push(enc2(&d));
			}
			emit::<BTreeMap<K, V>>(ctx, ops, outs, vec![]);
		}
	}

	pub fn set<T: Reg + Encode + Ord + Clone>(ctx: &mut Ctx) where BTreeSet<T>: Reg {
		let tn = <BTreeSet<T>>::name();
		if !ctx.wants(&tn) { return }
		let mut g = ctx.rng_for(&tn, 15);
		for _ in 0..(4 * ctx.scale) {
			let mut d: BTreeSet<T> = BTreeSet::new();
			let mut keys: Vec<T> = vec![];
			let (mut ops, mut outs) = (vec![], vec![]);
			for _ in 0..(8 + g.below(25)) {
				let op = if g.chance(2, 3) || keys.is_empty() {
					let k = if !keys.is_empty() && g.chance(1, 3) { g.pick(&keys).clone() } else { g.nested(T::gen) };
					let j = json!(["si", k.abs()]);
					keys.push(k.clone());
					d.insert(k);
					j
				} else {
					let k = g.pick(&keys).clone();
					d.remove(&k);
					json!(["sr", k.abs()])
				};
				ops.push(op);
				outs.push(enc2(&d));
			}
			emit::<BTreeSet<T>>(ctx, ops, outs, vec![]);
		}
	}

	pub fn heap<T: Reg + Encode + Ord + Clone>(ctx: &mut Ctx) where BinaryHeap<T>: Reg {
		let tn = <BinaryHeap<T>>::name();
		if !ctx.wants(&tn) { return }
		let mut g = ctx.rng_for(&tn, 16);
		for _ in 0..(3 * ctx.scale) {
			let mut d: BinaryHeap<T> = BinaryHeap::new();
			let (mut ops, mut outs) = (vec![], vec![]);
			for _ in 0..(6 + g.below(14)) {
				let op = if g.chance(2, 3) || d.is_empty() {
					let x = g.nested(T::gen); let j = json!(["pb", x.abs()]); d.push(x); j
				} else {
					let x = d.pop().unwrap(); json!(["rv", x.abs()])
				};
				ops.push(op);
				outs.push(enc2(&d));
			}
			emit::<BinaryHeap<T>>(ctx, ops, outs, vec![]);
		}
	}

	pub fn string(ctx: &mut Ctx) {
		let tn = String::name();
		if !ctx.wants(&tn) { return }
		let mut g = ctx.rng_for("String-hist", 17);
		for _ in 0..(4 * ctx.scale) {
			let mut d = String::new();
			let (mut ops, mut outs) = (vec![], vec![]);
			for _ in 0..(8 + g.below(20)) {
				let op = match g.below(6) {
					0..=2 => { let s = String::gen_len(&mut g, 1 + 0).unwrap_or_default(); let c = String::gen(&mut g); let add = if c.is_empty() { s } else { c };
						let j = json!(["ap", bytes_json(add.as_bytes())]); d.push_str(&add); j },
					3 => { d.pop(); json!(["tr", d.len()]) },
					4 => { let k = g.below(64); d.reserve(k); json!(["rs", k]) },
					_ => { d.shrink_to_fit(); json!(["sh"]) },
				};
				ops.push(op);
				outs.push(enc2(&d));
			}
			emit::<String>(ctx, ops, outs, vec![]);
		}
	}

	#[cfg(feature = "bit-vec")]
	pub fn bits<T: bitvec::store::BitStore<Unalias = T> + Reg + Encode, O: bitvec::order::BitOrder>(ctx: &mut Ctx)
	where bitvec::vec::BitVec<T, O>: Reg + Encode, bitvec::slice::BitSlice<T, O>: Encode, bitvec::boxed::BitBox<T, O>: Encode {
		use bitvec::vec::BitVec;
		let tn = <BitVec<T, O>>::name();
		if !ctx.wants(&tn) { return }
		let mut g = ctx.rng_for(&tn, 18);
		for _ in 0..(4 * ctx.scale) {
			let mut d: BitVec<T, O> = BitVec::new();
			let (mut ops, mut outs, mut sls) = (vec![], vec![], vec![]);
			for _ in 0..(10 + g.below(40)) {
				let op = match g.below(10) {
					0..=5 => { let b = g.chance(2, 3); d.push(b); json!(["bp", if b { 1 } else { 0 }]) },
					6 => { d.pop(); json!(["ob"]) },
					7 => { let k = g.below(d.len() + 2); d.truncate(k); json!(["tr", k]) },
					8 => {
						// replace by a sub-slice: drops a prefix, so the head sits at a bit offset
						let a = g.below(d.len() + 1); let b = a + g.below(d.len() - a + 1);
						d.truncate(b); d.drain(..a);
						json!(["bs", a, b])
					},
					_ => { let k = g.below(70); d.reserve(k); json!(["rs", k]) },
				};
				ops.push(op);
				outs.push(enc2(&d));
				// encode a borrowed sub-slice at an arbitrary bit offset as well
				let a = g.below(d.len() + 1); let b = a + g.below(d.len() - a + 1);
				// alternately as a borrowed slice and as a box made from it (both keep the head offset)
				match ops.len() % 3 {
					0 => sls.push(json!([a, b, enc2(&&d[a..b])])),
					1 => sls.push(json!([a, b, enc2(&bitvec::boxed::BitBox::from_bitslice(&d[a..b]))])),
					// the whole vector turned into a box as it is (keeps whatever lies behind its end)
					_ => {
						// (no clone: a copy would be a freshly built value)
						let bx = std::mem::take(&mut d).into_boxed_bitslice();
						sls.push(json!([0, bx.len(), enc2(&bx)]));
						d = bx.into_bitvec();
					},
				}
			}
			emit::<BitVec<T, O>>(ctx, ops, outs, sls);
		}
	}
}

// ------------------------------------------------------------------ C09: allocation ledger on hostile inputs

fn hostile_compact(n: u64) -> Vec<u8> {
	if n < 1 << 6 { vec![(n as u8) << 2] }
	else if n < 1 << 14 { (((n as u16) << 2) | 1).to_le_bytes().to_vec() }
	else if n < 1 << 30 { (((n as u32) << 2) | 2).to_le_bytes().to_vec() }
	else { let mut v = vec![3u8]; v.extend_from_slice(&(n as u32).to_le_bytes()); v }
}

pub fn drive_heap<T: Reg + Encode + Decode>(ctx: &mut Ctx) {
	let tn = T::name();
	if !ctx.wants(&tn) {
		return;
	}
	let mut g = ctx.rng_for(&tn, 19);
	let recursive = env_of::<T>().as_object().map(|o| o.len() > 1).unwrap_or(false);
	let zero = has_zero_elems(&T::descr()) || has_zero_elems(&env_of::<T>());
	// zero-sized elements: the decoder loops once per claimed element (terminates, but slowly);
	// elements with an empty encoding and a non-zero size are the known finding: cap at 2^22
	let counts: Vec<u64> = if zero { vec![1 << 22, (1 << 16) + 1, 300] } else { vec![u32::MAX as u64, 1 << 31, 1 << 30, (1 << 24) + 1, 70000, 16384, 16383, 5000] };
	let mut valid: Vec<Vec<u8>> = vec![];
	for _ in 0..(if ctx.tier == "thorough" { 4 } else { 2 }) {
		let v = T::gen(&mut g);
		if let Ok(b) = guarded(|| v.encode()) { valid.push(b) }
	}
	if let Some(v) = T::gen_len(&mut g, 5) {
		if let Ok(b) = guarded(|| v.encode()) { valid.push(b) }
	}
	let mut inputs: Vec<Vec<u8>> = vec![];
	for b in &valid {
		inputs.push(b.clone());
		let maxpos = b.len().min(if ctx.tier == "thorough" { 12 } else { 3 });
		// early positions, plus the middle and the end of the encoding (counts of inner collections that follow valid data)
		let mut positions: Vec<usize> = (0..=maxpos).collect();
		for extra in [b.len() / 2, b.len().saturating_sub(1), b.len().saturating_sub(2)] {
			if !positions.contains(&extra) { positions.push(extra); }
		}
		for i in positions {
			for (ci, c) in counts.iter().enumerate() {
				if ctx.tier != "thorough" && (i + ci) % 2 == 1 && !(i == 0 && ci == 0) { continue }
				let mut x = b[..i.min(b.len())].to_vec();
				x.extend_from_slice(&hostile_compact(*c));
				if i < b.len() { x.extend_from_slice(&b[(i + 1).min(b.len())..]); }
				// plausible payload behind it
				// plausible payload behind the count: the element bytes that followed the original count, repeated
				// (whole elements, so the stream stays well-formed); at least one input per type carries more than
				// one full 16 KiB preallocation chunk
				let pay = if i == 0 && ci == 0 { 40000 }
					else if ctx.tier == "thorough" { *g.pick(&[0usize, 0, 64, 4096, 17000, 65536]) } else { *g.pick(&[0usize, 0, 64, 2048]) };
				// recursive types: the repeated tail nests one level per repetition, and decoding without a depth limit
				// recurses as deep as the input says (that is C11's subject, not a heap question): keep the nesting modest
				let pay = if recursive { pay.min(2048) } else { pay };
				let tail: Vec<u8> = if i + 1 < b.len() { b[(i + 1)..].to_vec() } else { b.clone() };
				let mut k = 0;
				while x.len() < pay + i && !tail.is_empty() { x.push(tail[k % tail.len()]); k += 1; }
				inputs.push(x);
			}
		}
	}
	for inp in inputs {
		for be in ["rec", "unk", "bytes"] {
			#[cfg(not(feature = "bytes"))]
			if be == "bytes" { continue }
			let mut m = header::<T>("heap");
			m.insert("be".into(), json!(be));
			m.insert("len".into(), json!(inp.len()));
			m.insert("inp".into(), bytes_json(&inp[..inp.len().min(24)]));
			let res;
			let consumed;
			if be == "bytes" {
				#[cfg(feature = "bytes")]
				{
					crate::ledger::begin();
					let b = bytes::Bytes::copy_from_slice(&inp);
					let r = guarded(|| parity_scale_codec::decode_from_bytes::<T>(b));
					crate::ledger::pause();
					res = match &r { Ok(Ok(_)) => "ok", Ok(Err(_)) => "err", Err(()) => "panic" };
					// the shared-buffer cursor does not report its position: charge the whole input
					consumed = inp.len();
					crate::ledger::resume();
					drop(r);
					crate::ledger::pause();
				}
				#[cfg(not(feature = "bytes"))]
				{ res = "err"; consumed = 0; }
			} else {
				let mut ri = RecIn::new(&inp, be == "rec");
				crate::ledger::begin();
				let r = guarded(|| T::decode(&mut ri));
				crate::ledger::pause();
				res = match &r { Ok(Ok(_)) => "ok", Ok(Err(_)) => "err", Err(()) => "panic" };
				consumed = ri.pos;
				crate::ledger::resume();
				drop(r);
				crate::ledger::pause();
			}
			let (ev, overflow) = crate::ledger::events();
			// the ledger logs only requests that raise the live total above every earlier one at the
			// same or a smaller depth (the bound grows with depth and with the bytes delivered)
			let hev: Vec<Value> = ev.iter().map(|(_, live, at, dp)| json!([digits(*live as u128, 8), if be == "bytes" { inp.len() as u64 } else { *at }, dp])).collect();
			m.insert("hev".into(), Value::Array(hev));
			m.insert("nev".into(), json!(ev.len()));
			m.insert("evo".into(), json!(overflow));
			m.insert("res".into(), json!(res));
			m.insert("n".into(), json!(consumed));
			m.insert("leak".into(), json!(crate::ledger::live()));
			ctx.emit(&tn, Value::Object(m));
		}
	}
}

// ------------------------------------------------------------------ C11: adversarially deep input on a small stack

/// `unit` is the byte pattern that opens one more nesting level of the recursive type, `leaf`
/// closes the innermost one.  Decoding runs on a thread with a 1 MiB stack.
pub fn drive_deep<T: Reg + Decode + Send + 'static>(ctx: &mut Ctx, unit: &[u8], leaf: &[u8]) {
	let tn = T::name();
	if !ctx.wants(&tn) {
		return;
	}
	let levels_list: &[usize] = if ctx.tier == "thorough" { &[10, 33, 1000, 100_000, 1_000_000] } else { &[10, 33, 1_000_000] };
	for &levels in levels_list {
		let mut inp = Vec::with_capacity(levels * unit.len() + leaf.len());
		for _ in 0..levels { inp.extend_from_slice(unit); }
		inp.extend_from_slice(leaf);
		for limit in [32u32, 8, 0] {
			let data = inp.clone();
			let h = std::thread::Builder::new().stack_size(1 << 20).spawn(move || {
				let mut s = &data[..];
				let r = guarded(|| T::decode_with_depth_limit(limit, &mut s));
				match r { Ok(Ok(v)) => { std::mem::forget(v); "ok" }, Ok(Err(_)) => "err", Err(()) => "panic" }
			}).expect("spawn");
			let res = h.join().unwrap_or("thread-died");
			let rec = json!({"k":"deep","tn":tn,"levels":levels,"limit":limit,"res":res,"sig":[levels, limit]});
			ctx.emit(&tn, rec);
		}
	}
}

// ------------------------------------------------------------------ C14: heterogeneous concatenations

/// one part of a concatenation: encode a generated value, later decode it from the shared slice
pub struct CatOps {
	pub make: fn(&mut G) -> (Value, Value, Value, Vec<u8>),
	pub take: for<'a> fn(&mut &'a [u8]) -> (String, Value),
}
fn cat_make<T: Reg + Encode>(g: &mut G) -> (Value, Value, Value, Vec<u8>) {
	let v = g.nested(T::gen);
	(T::descr(), env_of::<T>(), v.abs(), v.encode())
}
fn cat_take<'a, T: Reg + Decode>(s: &mut &'a [u8]) -> (String, Value) {
	let r = guarded(|| T::decode(s));
	res_json(&r)
}
pub fn cat_ops<T: Reg + Encode + Decode>() -> CatOps {
	CatOps { make: cat_make::<T>, take: cat_take::<T> }
}

pub fn drive_cat(ctx: &mut Ctx, ops: &[CatOps]) {
	if !ctx.wants("concat") {
		return;
	}
	let mut g = ctx.rng_for("concat", 20);
	for _ in 0..(40 * ctx.scale) {
		let span = if g.chance(1, 8) { 49 } else { 7 };
		let n = 2 + g.below(span);
		let picks: Vec<usize> = (0..n).map(|_| g.below(ops.len())).collect();
		let mut parts = vec![];
		let mut buf: Vec<u8> = vec![];
		for &i in &picks {
			let (ty, e, v, out) = (ops[i].make)(&mut g);
			buf.extend_from_slice(&out);
			parts.push(json!({"ty": ty, "E": e, "v": v, "out": bytes_json(&out)}));
		}
		let mut s = &buf[..];
		let mut steps = vec![];
		for &i in &picks {
			let before = s.len();
			let (res, v) = (ops[i].take)(&mut s);
			let ok = res == "ok";
			steps.push(json!({"res": res, "v": v, "n": before - s.len()}));
			if !ok { break }
		}
		let rec = json!({"k":"cat","tn":"concat","parts":parts,"steps":steps,"rest":bytes_json(s),"out":bytes_json(&buf[..buf.len().min(16)])});
		ctx.emit("concat", rec);
	}
}
