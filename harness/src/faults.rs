//! C10: fault enumeration.  `Led` is an instrumented element: it gets a unique id when it is
//! constructed by `decode`, logs its drop, owns a small heap cell, and the byte it decodes from
//! steers it: 200 = malformed (Err), 201 = panic, 202 = limit error through the memory hook,
//! anything else = ok.  The vectors (shape, N, fault position, kind) are enumerated by TLC
//! (Gen_Ledger); this module builds the input bytes for a vector, runs the real decoder and logs
//! the construction/drop ledger and the allocator balance for TLC to validate.

use crate::drivers::{guarded, Ctx};
use crate::reg::bytes_json;
use parity_scale_codec::{Decode, Encode, Error, Input, MemTrackingInput, Output};
use serde_json::{json, Value};
use std::cell::{Cell, RefCell};
use std::collections::{BTreeMap, LinkedList, VecDeque};
use std::rc::Rc;
use std::sync::Arc;

thread_local! {
	static NEXT: Cell<u64> = Cell::new(1);
	static EV: RefCell<Vec<(u8, u64)>> = RefCell::new(Vec::with_capacity(1 << 14));
}

pub struct Led {
	id: u64,
	val: u8,
	cell: Box<u8>,
}
impl Led {
	fn new(val: u8) -> Self {
		let id = NEXT.with(|n| { let v = n.get(); n.set(v + 1); v });
		EV.with(|e| e.borrow_mut().push((0, id)));
		Led { id, val, cell: Box::new(val) }
	}
}
impl Drop for Led {
	fn drop(&mut self) {
		let id = self.id;
		let consistent = *self.cell == self.val;
		EV.with(|e| e.borrow_mut().push((if consistent { 1 } else { 2 }, id)));
	}
}
impl Encode for Led {
	fn encode_to<W: Output + ?Sized>(&self, dest: &mut W) { dest.push_byte(self.val) }
}
impl Decode for Led {
	fn decode<I: Input>(input: &mut I) -> Result<Self, Error> {
		let b = input.read_byte()?;
		match b {
			200 => Err("malformed element".into()),
			201 => panic!("element decoder panics"),
			202 => { input.on_before_alloc_mem(usize::MAX / 2)?; Ok(Led::new(b)) },
			_ => Ok(Led::new(b)),
		}
	}
}
thread_local! {
	static ZLIVE: RefCell<Vec<u64>> = RefCell::new(Vec::with_capacity(1 << 12));
}
/// zero-sized instrumented element (a token: no memory, but a destructor): it cannot carry its id, so live ids are
/// kept on a stack and a drop releases the most recent one - a drop with nothing live is logged as id 0
pub struct LedZ;
impl LedZ {
	fn new() -> Self {
		let id = NEXT.with(|n| { let v = n.get(); n.set(v + 1); v });
		ZLIVE.with(|z| z.borrow_mut().push(id));
		EV.with(|e| e.borrow_mut().push((0, id)));
		LedZ
	}
}
impl Drop for LedZ {
	fn drop(&mut self) {
		let id = ZLIVE.with(|z| z.borrow_mut().pop()).unwrap_or(0);
		EV.with(|e| e.borrow_mut().push((1, id)));
	}
}
impl Encode for LedZ {
	fn encode_to<W: Output + ?Sized>(&self, dest: &mut W) { dest.push_byte(1) }
}
impl Decode for LedZ {
	fn decode<I: Input>(input: &mut I) -> Result<Self, Error> {
		let b = input.read_byte()?;
		match b {
			200 => Err("malformed element".into()),
			201 => panic!("element decoder panics"),
			202 => { input.on_before_alloc_mem(usize::MAX / 2)?; Ok(LedZ::new()) },
			_ => Ok(LedZ::new()),
		}
	}
}
/// an instrumented element of more than 256 bytes (item-size dependent paths of the sequence decoders)
pub struct LedBig { pub led: Led, pub pad: [u8; 300] }
impl Encode for LedBig {
	fn encode_to<W: Output + ?Sized>(&self, dest: &mut W) { self.led.encode_to(dest) }
}
impl Decode for LedBig {
	fn decode<I: Input>(input: &mut I) -> Result<Self, Error> { Ok(LedBig { led: Led::decode(input)?, pad: [0x5a; 300] }) }
}

/// a Led that can be defaulted (skipped fields are filled with Default)
pub struct LedDefault(pub Led);
impl Default for LedDefault {
	fn default() -> Self { LedDefault(Led::new(7)) }
}
// never used by a correct derive (the field is skipped); present so that a derive which wrongly decodes skipped
// fields still compiles and shows up in the ledger instead of taking the harness down
impl Decode for LedDefault {
	fn decode<I: Input>(input: &mut I) -> Result<Self, Error> { Led::decode(input).map(LedDefault) }
}
impl Encode for LedDefault {
	fn encode_to<W: Output + ?Sized>(&self, dest: &mut W) { self.0.encode_to(dest) }
}
impl PartialEq for Led { fn eq(&self, o: &Self) -> bool { self.val == o.val } }
impl Eq for Led {}
impl PartialOrd for Led { fn partial_cmp(&self, o: &Self) -> Option<std::cmp::Ordering> { Some(self.cmp(o)) } }
impl Ord for Led { fn cmp(&self, o: &Self) -> std::cmp::Ordering { self.val.cmp(&o.val) } }

#[cfg(feature = "derive")]
mod derived {
	use super::Led;
	use parity_scale_codec::{Decode, Encode};
	#[derive(Encode, Decode)]
	pub struct LedPair { pub a: Led, pub b: Led, pub c: Led }
	#[derive(Encode, Decode)]
	pub struct LedTup(pub Led, pub Led, pub Led);
	#[derive(Encode, Decode)]
	pub enum LedEnum { #[codec(index = 0)] One(Led), #[codec(index = 1)] Three(Led, Led, Led) }
	#[derive(Encode, Decode)]
	#[repr(transparent)]
	pub struct LedT(pub Led);
	#[derive(Encode, Decode)]
	#[repr(transparent)]
	pub struct LedArrT(pub [Led; 3]);
	/// zero-sized in memory, one byte on the wire, and it rejects every byte but one
	#[derive(Encode, Decode)]
	pub enum ZTag { #[codec(index = 1)] Only }
	/// transparent: one instrumented field followed by a zero-sized field whose decoding can fail
	#[derive(Encode, Decode)]
	#[repr(transparent)]
	pub struct LedTZ { pub led: Led, pub tag: ZTag }
	/// the only field is skipped: decoding consumes nothing and must fill it with its default, in place too
	#[derive(Encode, Decode)]
	#[repr(transparent)]
	pub struct LedSkip(#[codec(skip)] pub super::LedDefault);
}
#[cfg(feature = "derive")]
use derived::*;

fn compact(n: usize) -> Vec<u8> {
	if n < 64 { vec![(n as u8) << 2] } else { (((n as u16) << 2) | 1).to_le_bytes().to_vec() }
}

/// element bytes: element j decodes fine except the one at the fault position
fn elems(n: usize, f: i64, kind: &str, per_elem_prefix: Option<&dyn Fn(usize) -> Vec<u8>>) -> Vec<u8> {
	let mut out = vec![];
	for j in 0..n {
		if f >= 0 && j as i64 == f && kind == "exhausted" {
			// cut the input right before the faulty element (and before its prefix)
			return out;
		}
		if let Some(p) = per_elem_prefix { out.extend(p(j)); }
		let b = if f >= 0 && j as i64 == f { match kind { "malformed" => 200, "panic" => 201, _ => 202 } } else { (j % 199) as u8 + 1 };
		out.push(b);
	}
	out
}

fn run<T: Decode>(ctx: &mut Ctx, shape: &str, n: usize, f: i64, kind: &str, inp: Vec<u8>, total: usize) {
	EV.with(|e| e.borrow_mut().clear());
	// (the recorder's own buffers exist before the allocator ledger starts)
	ZLIVE.with(|z| z.borrow_mut().clear());
	let mut s = &inp[..];
	crate::ledger::begin();
	let r = guarded(|| {
		// a memory limit makes byte 202 a limit error; otherwise it is an ordinary element
		if kind == "limit" {
			let mut m = MemTrackingInput::new(&mut s, 1 << 40);
			T::decode(&mut m)
		} else if kind == "hooklimit" {
			let mut m = MemTrackingInput::new(&mut s, 1);
			T::decode(&mut m)
		} else {
			T::decode(&mut s)
		}
	});
	crate::ledger::pause();
	let ev1: Vec<(u8, u64)> = EV.with(|e| e.borrow().clone());
	EV.with(|e| e.borrow_mut().clear());
	let res = match &r { Ok(Ok(_)) => "ok", Ok(Err(_)) => "err", Err(()) => "panic" };
	crate::ledger::resume();
	let dropped = guarded(move || drop(r));
	crate::ledger::pause();
	let ev2: Vec<(u8, u64)> = EV.with(|e| e.borrow().clone());
	let leak = crate::ledger::live();
	let to_json = |v: &Vec<(u8, u64)>| Value::Array(v.iter().map(|(k, id)| json!([k, id])).collect());
	let rec = json!({"k":"led","tn":shape,"shape":shape,"n":n,"total":total,"f":f,"kind":kind,"inp":bytes_json(&inp),
		"res":res,"ev":to_json(&ev1),"ev2":to_json(&ev2),"dropok":dropped.is_ok(),"leak":leak});
	ctx.emit(shape, rec);
}

macro_rules! arr_shapes {
	($ctx:expr, $shape:expr, $n:expr, $f:expr, $kind:expr; $($N:literal),*) => {
		match $n { $(
			$N => {
				match $shape {
					"array" => run::<[Led; $N]>($ctx, "array", $N, $f, $kind, elems($N, $f, $kind, None), $N),
					"boxarray" => run::<Box<[Led; $N]>>($ctx, "boxarray", $N, $f, $kind, elems($N, $f, $kind, None), $N),
					"rcarray" => run::<Rc<[Led; $N]>>($ctx, "rcarray", $N, $f, $kind, elems($N, $f, $kind, None), $N),
					"arrayofbox" => run::<[Box<Led>; $N]>($ctx, "arrayofbox", $N, $f, $kind, elems($N, $f, $kind, None), $N),
					"arrayz" => run::<[LedZ; $N]>($ctx, "arrayz", $N, $f, $kind, elems($N, $f, $kind, None), $N),
					"boxarrayz" => run::<Box<[LedZ; $N]>>($ctx, "boxarrayz", $N, $f, $kind, elems($N, $f, $kind, None), $N),
					"arraybig" => run::<[LedBig; $N]>($ctx, "arraybig", $N, $f, $kind, elems($N, $f, $kind, None), $N),
					"vecarrayz2" => {
						let mut inp = compact($N);
						inp.extend(elems(2 * $N, $f, $kind, None));
						run::<Vec<[LedZ; 2]>>($ctx, "vecarrayz2", $N, $f, $kind, inp, 2 * $N)
					},
					"arrayopt" => run::<[Option<Led>; $N]>($ctx, "arrayopt", $N, $f, $kind, elems($N, $f, $kind, Some(&|_| vec![1u8])), $N),
					"vecarray2" => {
						// Vec<[Led; 2]> with N arrays: element index is linear
						let mut inp = compact($N);
						inp.extend(elems(2 * $N, $f, $kind, None));
						run::<Vec<[Led; 2]>>($ctx, "vecarray2", $N, $f, $kind, inp, 2 * $N)
					},
					#[cfg(feature = "derive")]
					"arraytransp" => run::<[LedT; $N]>($ctx, "arraytransp", $N, $f, $kind, elems($N, $f, $kind, None), $N),
					#[cfg(feature = "derive")]
					"boxarraytransp" => run::<Box<[LedT; $N]>>($ctx, "boxarraytransp", $N, $f, $kind, elems($N, $f, $kind, None), $N),
					_ => {},
				}
			},
		)* _ => {} }
	};
}

pub fn run_vector(ctx: &mut Ctx, shape: &str, n: usize, f: i64, kind: &str) {
	match shape {
		"array" | "boxarray" | "rcarray" | "arrayofbox" | "arrayopt" | "vecarray2" | "arraytransp" | "boxarraytransp"
		| "arrayz" | "boxarrayz" | "arraybig" | "vecarrayz2" =>
			arr_shapes!(ctx, shape, n, f, kind; 0, 1, 2, 3, 4, 7, 40),
		"vec" => { let mut i = compact(n); i.extend(elems(n, f, kind, None)); run::<Vec<Led>>(ctx, shape, n, f, kind, i, n) },
		"deque" => { let mut i = compact(n); i.extend(elems(n, f, kind, None)); run::<VecDeque<Led>>(ctx, shape, n, f, kind, i, n) },
		"list" => { let mut i = compact(n); i.extend(elems(n, f, kind, None)); run::<LinkedList<Led>>(ctx, shape, n, f, kind, i, n) },
		"map" => { let mut i = compact(n); i.extend(elems(n, f, kind, Some(&|j| vec![j as u8]))); run::<BTreeMap<u8, Led>>(ctx, shape, n, f, kind, i, n) },
		"vecz" => { let mut i = compact(n); i.extend(elems(n, f, kind, None)); run::<Vec<LedZ>>(ctx, shape, n, f, kind, i, n) },
		"vecbig" => { let mut i = compact(n); i.extend(elems(n, f, kind, None)); run::<Vec<LedBig>>(ctx, shape, n, f, kind, i, n) },
		"dequebig" => { let mut i = compact(n); i.extend(elems(n, f, kind, None)); run::<VecDeque<LedBig>>(ctx, shape, n, f, kind, i, n) },
		"listz" => { let mut i = compact(n); i.extend(elems(n, f, kind, None)); run::<LinkedList<LedZ>>(ctx, shape, n, f, kind, i, n) },
		"vecbox" => { let mut i = compact(n); i.extend(elems(n, f, kind, None)); run::<Vec<Box<Led>>>(ctx, shape, n, f, kind, i, n) },
		"vecvec" => {
			// Vec<Vec<Led>>: n inner vectors of two elements each
			let mut i = compact(n);
			i.extend(elems(2 * n, f, kind, Some(&|j| if j % 2 == 0 { compact(2) } else { vec![] })));
			run::<Vec<Vec<Led>>>(ctx, shape, n, f, kind, i, 2 * n)
		},
		"option" if n == 1 => { let mut i = vec![1u8]; i.extend(elems(1, f, kind, None)); run::<Option<Led>>(ctx, shape, 1, f, kind, i, 1) },
		"result" if n == 1 => { let mut i = vec![0u8]; i.extend(elems(1, f, kind, None)); run::<Result<Led, u8>>(ctx, shape, 1, f, kind, i, 1) },
		"box" if n == 1 => run::<Box<Led>>(ctx, shape, 1, f, kind, elems(1, f, kind, None), 1),
		"rc" if n == 1 => run::<Rc<Led>>(ctx, shape, 1, f, kind, elems(1, f, kind, None), 1),
		"arc" if n == 1 => run::<Arc<Led>>(ctx, shape, 1, f, kind, elems(1, f, kind, None), 1),
		"tuple3" if n == 3 => run::<(Led, Led, Led)>(ctx, shape, 3, f, kind, elems(3, f, kind, None), 3),
		"boxtuple" if n == 2 => run::<Box<(Led, Box<Led>)>>(ctx, shape, 2, f, kind, elems(2, f, kind, None), 2),
		"nested" if n == 3 => run::<[[Led; 2]; 3]>(ctx, shape, 3, f, kind, elems(6, f, kind, None), 6),
		"nestedz" if n == 3 => run::<[[LedZ; 2]; 3]>(ctx, shape, 3, f, kind, elems(6, f, kind, None), 6),
		"arcarray3" if n == 3 => run::<Arc<[Led; 3]>>(ctx, shape, 3, f, kind, elems(3, f, kind, None), 3),
		"optarcarr" if n == 3 => { let mut i = vec![1u8]; i.extend(elems(3, f, kind, None)); run::<Option<Arc<[Led; 3]>>>(ctx, shape, 3, f, kind, i, 3) },
		#[cfg(feature = "derive")]
		"struct3" if n == 3 => run::<LedPair>(ctx, shape, 3, f, kind, elems(3, f, kind, None), 3),
		// derived structs decoded in place (behind a pointer, inside an array)
		#[cfg(feature = "derive")]
		"boxtupstruct3" if n == 3 => run::<Box<LedTup>>(ctx, shape, 3, f, kind, elems(3, f, kind, None), 3),
		#[cfg(feature = "derive")]
		"boxstruct3" if n == 3 => run::<Box<LedPair>>(ctx, shape, 3, f, kind, elems(3, f, kind, None), 3),
		#[cfg(feature = "derive")]
		"arrtupstruct" if n == 3 => run::<[LedTup; 2]>(ctx, shape, 3, f, kind, elems(6, f, kind, None), 6),
		#[cfg(feature = "derive")]
		"rctupstruct3" if n == 3 => run::<Rc<LedTup>>(ctx, shape, 3, f, kind, elems(3, f, kind, None), 3),
		"boxtuple3" if n == 3 => run::<Box<(Led, Led, Led)>>(ctx, shape, 3, f, kind, elems(3, f, kind, None), 3),
		"arrtuple2" if n == 3 => run::<[(Led, Led); 3]>(ctx, shape, 3, f, kind, elems(6, f, kind, None), 6),
		#[cfg(feature = "generic-array")]
		"garray3" if n == 3 => run::<generic_array::GenericArray<Led, generic_array::typenum::U3>>(ctx, shape, 3, f, kind, elems(3, f, kind, None), 3),
		#[cfg(feature = "generic-array")]
		"boxgarray3" if n == 3 => run::<Box<generic_array::GenericArray<Led, generic_array::typenum::U3>>>(ctx, shape, 3, f, kind, elems(3, f, kind, None), 3),
		#[cfg(feature = "derive")]
		"enum3" if n == 3 => { let mut i = vec![1u8]; i.extend(elems(3, f, kind, None)); run::<LedEnum>(ctx, shape, 3, f, kind, i, 3) },
		#[cfg(feature = "derive")]
		"enum1" if n == 1 => { let mut i = vec![0u8]; i.extend(elems(1, f, kind, None)); run::<LedEnum>(ctx, shape, 1, f, kind, i, 1) },
		#[cfg(feature = "derive")]
		"boxtransp" if n == 1 => run::<Box<LedT>>(ctx, shape, 1, f, kind, elems(1, f, kind, None), 1),
		#[cfg(feature = "derive")]
		"boxtranspskip" if n == 1 => run::<Box<LedSkip>>(ctx, shape, 1, f, kind, vec![], 1),
		#[cfg(feature = "derive")]
		"rctranspskip" if n == 1 => run::<Rc<LedSkip>>(ctx, shape, 1, f, kind, vec![], 1),
		#[cfg(feature = "derive")]
		"arraytranspskip" if n == 1 => run::<[LedSkip; 3]>(ctx, shape, 1, f, kind, vec![], 3),
		// the zero-sized companion field of a transparent struct fails after the data field was built in place
		#[cfg(feature = "derive")]
		"boxtransptag" | "rctransptag" | "arraytransptag" if n == 1 => {
			let inp: Vec<u8> = if f < 0 { vec![5, 1] } else if kind == "exhausted" { vec![5] } else { vec![5, 9] };
			match shape {
				"boxtransptag" => run::<Box<LedTZ>>(ctx, shape, 1, f, kind, inp, 1),
				"rctransptag" => run::<Rc<LedTZ>>(ctx, shape, 1, f, kind, inp, 1),
				_ => run::<[LedTZ; 1]>(ctx, shape, 1, f, kind, inp, 1),
			}
		},
		#[cfg(feature = "derive")]
		"boxarrtransp3" if n == 3 => run::<Box<LedArrT>>(ctx, shape, 3, f, kind, elems(3, f, kind, None), 3),
		_ => {},
	}
}

/// vectors come from TLC (Gen_Ledger): one JSON object per line {shape, n, f, kind}
pub fn drive(ctx: &mut Ctx) {
	let path = std::env::var("VECTORS").expect("VECTORS");
	let text = std::fs::read_to_string(&path).expect("read vectors");
	for line in text.lines() {
		if line.trim().is_empty() { continue }
		let j: Value = serde_json::from_str(line).expect("vector json");
		let shape = j["shape"].as_str().unwrap().to_string();
		if !ctx.wants(&shape) { continue }
		let n = j["n"].as_u64().unwrap() as usize;
		let f = j["f"].as_i64().unwrap();
		let kind = j["kind"].as_str().unwrap().to_string();
		run_vector(ctx, &shape, n, f, &kind);
		// the same fault pattern stretched to longer containers (same relative position)
		if ctx.tier == "thorough" || n == 4 {
			for big in [7usize, 40] {
				if n == 4 {
					let fb = if f < 0 { -1 } else if f == 3 { big as i64 - 1 } else if f == 0 { 0 } else { (f * big as i64) / 4 };
					run_vector(ctx, &shape, big, fb, &kind);
				}
			}
		}
	}
}
