//! Allocator ledger (C09, C10): a global allocator that, while an episode is open, logs every
//! request into a fixed static ring together with the bytes the recording input has delivered
//! so far and the current nesting depth.  It never allocates itself.

use std::alloc::{GlobalAlloc, Layout, System};
use std::sync::atomic::{AtomicBool, AtomicI64, AtomicU64, AtomicUsize, Ordering::Relaxed};

pub const CAP: usize = 1 << 17;
pub struct Ledger;

static ON: AtomicBool = AtomicBool::new(false);
static N: AtomicUsize = AtomicUsize::new(0);
static OVERFLOW: AtomicBool = AtomicBool::new(false);
pub static POS: AtomicU64 = AtomicU64::new(0);
pub static DEPTH: AtomicI64 = AtomicI64::new(0);
pub static LIVE: AtomicI64 = AtomicI64::new(0);
pub static PEAK: AtomicI64 = AtomicI64::new(0);
pub static PEAK_AT: AtomicU64 = AtomicU64::new(0);
pub static PEAK_DP: AtomicU64 = AtomicU64::new(0);
#[allow(clippy::declare_interior_mutable_const)]
const NEG: AtomicI64 = AtomicI64::new(-1);
/// largest live total seen so far at each depth (an event is worth logging only if it exceeds
/// every earlier total at the same or a smaller depth: the bound grows with depth and position)
static BEST: [AtomicI64; 66] = [NEG; 66];
#[allow(clippy::declare_interior_mutable_const)]
const Z: AtomicU64 = AtomicU64::new(0);
static KIND: [AtomicU64; CAP] = [Z; CAP];
static SIZE: [AtomicU64; CAP] = [Z; CAP];
static AT: [AtomicU64; CAP] = [Z; CAP];
static DP: [AtomicU64; CAP] = [Z; CAP];

fn log(kind: u64, size: u64, delta: i64) {
	if !ON.load(Relaxed) {
		return;
	}
	let live = LIVE.fetch_add(delta, Relaxed) + delta;
	if kind != 0 {
		return;
	}
	let d = (DEPTH.load(Relaxed).max(0) as usize).min(65);
	if live > PEAK.load(Relaxed) {
		PEAK.store(live, Relaxed);
		PEAK_AT.store(POS.load(Relaxed), Relaxed);
		PEAK_DP.store(d as u64, Relaxed);
	}
	let mut m = -1;
	for b in BEST[..=d].iter() {
		m = m.max(b.load(Relaxed));
	}
	if live <= m {
		return;
	}
	BEST[d].store(live, Relaxed);
	let size = live as u64;
	let i = N.fetch_add(1, Relaxed);
	if i >= CAP {
		OVERFLOW.store(true, Relaxed);
		return;
	}
	KIND[i].store(kind, Relaxed);
	SIZE[i].store(size, Relaxed);
	AT[i].store(POS.load(Relaxed), Relaxed);
	DP[i].store(DEPTH.load(Relaxed).max(0) as u64, Relaxed);
}

unsafe impl GlobalAlloc for Ledger {
	unsafe fn alloc(&self, l: Layout) -> *mut u8 {
		log(0, l.size() as u64, l.size() as i64);
		System.alloc(l)
	}
	unsafe fn alloc_zeroed(&self, l: Layout) -> *mut u8 {
		log(0, l.size() as u64, l.size() as i64);
		System.alloc_zeroed(l)
	}
	unsafe fn dealloc(&self, p: *mut u8, l: Layout) {
		log(1, l.size() as u64, -(l.size() as i64));
		System.dealloc(p, l)
	}
	unsafe fn realloc(&self, p: *mut u8, l: Layout, new: usize) -> *mut u8 {
		// logged as free(old) + alloc(new) in one event: kind 2 carries the new size, the old one is implied by the delta
		log(1, l.size() as u64, -(l.size() as i64));
		log(0, new as u64, new as i64);
		System.realloc(p, l, new)
	}
}

pub fn begin() {
	N.store(0, Relaxed);
	OVERFLOW.store(false, Relaxed);
	POS.store(0, Relaxed);
	DEPTH.store(0, Relaxed);
	LIVE.store(0, Relaxed);
	PEAK.store(0, Relaxed);
	PEAK_AT.store(0, Relaxed);
	PEAK_DP.store(0, Relaxed);
	for b in BEST.iter() {
		b.store(-1, Relaxed);
	}
	ON.store(true, Relaxed);
}
pub fn pause() {
	ON.store(false, Relaxed);
}
pub fn pause_if_on() -> bool {
	ON.swap(false, Relaxed)
}
pub fn resume() {
	ON.store(true, Relaxed);
}
/// raising events recorded so far: (0, live total after the request, bytes delivered, depth); the peak is always last
pub fn events() -> (Vec<(u64, u64, u64, u64)>, bool) {
	let was = ON.swap(false, Relaxed);
	let n = N.load(Relaxed).min(CAP);
	let v = (0..n).map(|i| (KIND[i].load(Relaxed), SIZE[i].load(Relaxed), AT[i].load(Relaxed), DP[i].load(Relaxed))).collect();
	let o = OVERFLOW.load(Relaxed);
	let mut v: Vec<(u64, u64, u64, u64)> = v;
	v.push((0, PEAK.load(Relaxed).max(0) as u64, PEAK_AT.load(Relaxed), PEAK_DP.load(Relaxed)));
	ON.store(was, Relaxed);
	(v, o)
}
pub fn live() -> i64 {
	LIVE.load(Relaxed)
}
pub fn peak() -> i64 {
	PEAK.load(Relaxed)
}
