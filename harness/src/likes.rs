//! One constructor per declared `EncodeLike` family (property C16).  `like!(ctx, name, A => Bdecl, B, |b| a)`
//! type-checks `A: EncodeLike<Bdecl>` (so only declared pairs are exercised), builds `a` from a generated
//! `B`-value and logs a's encoding against B's descriptor.
use crate::drivers::Ctx;
use crate::like;
use crate::types::*;
use parity_scale_codec::{Compact, CompactRef, OptionBool, Ref};
use std::borrow::Cow;
use std::collections::{BTreeMap, BTreeSet, BinaryHeap, LinkedList, VecDeque};
use std::rc::Rc;
use std::sync::Arc;

pub fn drive(ctx: &mut Ctx) {
	// references, boxes, shared pointers, copy-on-write
	like!(ctx, "&T/T", &u32 => u32, u32, |b| &b);
	like!(ctx, "T/&T", u32 => &u32, u32, |b| b);
	like!(ctx, "&&T/T", &&String => String, String, |b| &&b);
	like!(ctx, "T/&&T", String => &&String, String, |b| b.clone());
	like!(ctx, "&mut T/T", &mut u64 => u64, u64, |b| leak_mut(b));
	like!(ctx, "T/&mut T", u64 => &mut u64, u64, |b| b);
	like!(ctx, "Box<T>/T", Box<Vec<u16>> => Vec<u16>, Vec<u16>, |b| Box::new(b.clone()));
	like!(ctx, "T/Box<T>", Vec<u16> => Box<Vec<u16>>, Box<Vec<u16>>, |b| (*b).clone());
	like!(ctx, "Rc<T>/T", Rc<(u8, String)> => (u8, String), (u8, String), |b| Rc::new(b.clone()));
	like!(ctx, "T/Rc<T>", i32 => Rc<i32>, Rc<i32>, |b| *b);
	like!(ctx, "Arc<T>/T", Arc<Option<u8>> => Option<u8>, Option<u8>, |b| Arc::new(b));
	like!(ctx, "T/Arc<T>", u128 => Arc<u128>, Arc<u128>, |b| *b);
	like!(ctx, "Cow<T>/T borrowed", Cow<u32> => u32, u32, |b| Cow::Borrowed(&b));
	like!(ctx, "Cow<T>/T owned", Cow<String> => String, String, |b| Cow::Owned(b.clone()));
	like!(ctx, "T/Cow<T>", u16 => Cow<u16>, u16, |b| b);
	like!(ctx, "Box<T>/Box<T>", Box<u8> => Box<u8>, Box<u8>, |b| b.clone());
	like!(ctx, "&T self", &bool => &bool, bool, |b| &b);
	// strings and byte slices
	like!(ctx, "String/&str", String => &str, String, |b| b.clone());
	like!(ctx, "&str/String", &str => String, String, |b| b.as_str());
	like!(ctx, "&[u8]/Vec<u8>", &[u8] => Vec<u8>, Vec<u8>, |b| &b[..]);
	like!(ctx, "Vec<T>/&[T]", Vec<u32> => &[u32], Vec<u32>, |b| b.clone());
	like!(ctx, "&[T]/Vec<T> items", &[String] => Vec<String>, Vec<String>, |b| &b[..]);
	like!(ctx, "Vec<&T>/Vec<T>", Vec<&u16> => Vec<u16>, Vec<u16>, |b| b.iter().collect());
	like!(ctx, "Vec<Box<T>>/Vec<T>", Vec<Box<u32>> => Vec<u32>, Vec<u32>, |b| b.iter().map(|x| Box::new(*x)).collect());
	like!(ctx, "VecDeque<T>/Vec<T>", VecDeque<u16> => Vec<u16>, Vec<u16>, |b| {
		let mut d: VecDeque<u16> = VecDeque::new();
		let h = b.len() / 2;
		for x in &b[h..] { d.push_back(*x) }
		for x in b[..h].iter().rev() { d.push_front(*x) }
		d
	});
	like!(ctx, "Vec<T>/VecDeque<T>", Vec<String> => VecDeque<String>, VecDeque<String>, |b| b.iter().cloned().collect());
	like!(ctx, "VecDeque<T>/&[T]", VecDeque<u64> => &[u64], Vec<u64>, |b| b.iter().cloned().collect());
	like!(ctx, "&[T]/VecDeque<T>", &[u8] => VecDeque<u8>, VecDeque<u8>, |b| { b.make_contiguous(); b.as_slices().0 });
	like!(ctx, "VecDeque<T> self", VecDeque<bool> => VecDeque<bool>, VecDeque<bool>, |b| b.clone());
	// a wrapped ring buffer with non-primitive elements (the per-item path walks both physical slices)
	like!(ctx, "VecDeque<String>/Vec<String> wrapped", VecDeque<String> => Vec<String>, Vec<String>, |b| {
		let mut d: VecDeque<String> = VecDeque::with_capacity(b.len().max(2));
		let h = b.len() / 2;
		for x in &b[h..] { d.push_back(x.clone()) }
		for x in b[..h].iter().rev() { d.push_front(x.clone()) }
		d
	});
	like!(ctx, "VecDeque<(u8,Option<u16>)>/&[..] wrapped", VecDeque<(u8, Option<u16>)> => &[(u8, Option<u16>)], Vec<(u8, Option<u16>)>, |b| {
		let mut d: VecDeque<(u8, Option<u16>)> = VecDeque::with_capacity(b.len().max(2));
		let h = (b.len() + 1) / 2;
		for x in &b[h..] { d.push_back(*x) }
		for x in b[..h].iter().rev() { d.push_front(*x) }
		d
	});
	#[cfg(feature = "bytes")]
	{
		like!(ctx, "Bytes/Vec<u8>", bytes::Bytes => Vec<u8>, Vec<u8>, |b| bytes::Bytes::from(b.clone()));
		like!(ctx, "Bytes/&[u8]", bytes::Bytes => &[u8], Vec<u8>, |b| bytes::Bytes::from(b.clone()));
		like!(ctx, "Vec<u8>/Bytes", Vec<u8> => bytes::Bytes, bytes::Bytes, |b| b.to_vec());
		like!(ctx, "&[u8]/Bytes", &[u8] => bytes::Bytes, bytes::Bytes, |b| &b[..]);
		// byte-buffer aliases followed by more data (the shared-buffer back-end must find the next value where it starts)
		like!(ctx, "(Vec<u8>,u32)/(Bytes,u32)", (Vec<u8>, u32) => (bytes::Bytes, u32), (bytes::Bytes, u32), |b| (b.0.to_vec(), b.1));
		like!(ctx, "(Vec<u8>,Vec<u8>)/(Bytes,Bytes)", (Vec<u8>, Vec<u8>) => (bytes::Bytes, bytes::Bytes), (bytes::Bytes, bytes::Bytes), |b| (b.0.to_vec(), b.1.to_vec()));
		like!(ctx, "Vec<Vec<u8>>/Vec<Bytes>", Vec<Vec<u8>> => Vec<bytes::Bytes>, Vec<bytes::Bytes>, |b| b.iter().map(|x| x.to_vec()).collect());
		like!(ctx, "(u8,&[u8],u16)/(u8,Bytes,u16)", (u8, &[u8], u16) => (u8, bytes::Bytes, u16), (u8, bytes::Bytes, u16), |b| (b.0, leak_vec(b.1.to_vec()), b.2));
	}
	// element-wise lifts
	like!(ctx, "Option<&T>/Option<T>", Option<&u32> => Option<u32>, Option<u32>, |b| b.as_ref());
	like!(ctx, "Result<&T,&E>/Result<T,E>", Result<&u8, &String> => Result<u8, String>, Result<u8, String>, |b| b.as_ref());
	like!(ctx, "[&T;N]/[T;N]", [&u16; 3] => [u16; 3], [u16; 3], |b| [&b[0], &b[1], &b[2]]);
	// arrays whose elements take one byte of memory but are not encoded as that byte
	like!(ctx, "[OptionBool;3] self", [OptionBool; 3] => [OptionBool; 3], [OptionBool; 3], |b| b.clone());
	like!(ctx, "Box<[Option<bool>;4]>/[..;4]", Box<[Option<bool>; 4]> => [Option<bool>; 4], [Option<bool>; 4], |b| Box::new(b.clone()));
	like!(ctx, "&[Compact<u8>;3]/[..;3]", &[Compact<u8>; 3] => [Compact<u8>; 3], [Compact<u8>; 3], |b| &b);
	like!(ctx, "[Option<NonZeroU8>;2] self", [Option<std::num::NonZeroU8>; 2] => [Option<std::num::NonZeroU8>; 2], [Option<std::num::NonZeroU8>; 2], |b| b.clone());
	like!(ctx, "[bool;5] self", [bool; 5] => [bool; 5], [bool; 5], |b| b.clone());
	like!(ctx, "[Box<T>;N]/[T;N]", [Box<u32>; 2] => [u32; 2], [u32; 2], |b| [Box::new(b[0]), Box::new(b[1])]);
	like!(ctx, "(&T,)/(T,)", (&u64,) => (u64,), (u64,), |b| (&b.0,));
	like!(ctx, "(&A,&B)/(A,B)", (&u8, &String) => (u8, String), (u8, String), |b| (&b.0, &b.1));
	like!(ctx, "(Box<A>,B,&C)/(A,B,C)", (Box<u16>, String, &bool) => (u16, String, bool), (u16, String, bool), |b| (Box::new(b.0), b.1.clone(), &b.2));
	// collections
	like!(ctx, "BTreeMap<&K..>/BTreeMap", BTreeMap<u8, &u16> => BTreeMap<u8, u16>, BTreeMap<u8, u16>, |b| b.iter().map(|(k, v)| (*k, v)).collect());
	like!(ctx, "BTreeMap/&[(K,V)]", BTreeMap<u32, String> => &[(u32, String)], BTreeMap<u32, String>, |b| b.clone());
	like!(ctx, "&[(K,V)]/BTreeMap", &[(u8, u16)] => BTreeMap<u8, u16>, BTreeMap<u8, u16>, |b| { KV.with(|c| { *c.borrow_mut() = b.iter().map(|(k, v)| (*k, *v)).collect(); }); leak_kv() });
	like!(ctx, "BTreeSet/&[(T,)]", BTreeSet<u32> => &[(u32,)], BTreeSet<u32>, |b| b.clone());
	like!(ctx, "&[(T,)]/BTreeSet", &[(u32,)] => BTreeSet<u32>, BTreeSet<u32>, |b| { leak_vec(b.iter().map(|x| (*x,)).collect()) });
	like!(ctx, "BTreeSet<&T>/BTreeSet<T>", BTreeSet<&String> => BTreeSet<String>, BTreeSet<String>, |b| b.iter().collect());
	like!(ctx, "LinkedList/&[(T,)]", LinkedList<u16> => &[(u16,)], LinkedList<u16>, |b| b.clone());
	like!(ctx, "&[(T,)]/LinkedList", &[(String,)] => LinkedList<String>, LinkedList<String>, |b| { leak_vec(b.iter().map(|x| (x.clone(),)).collect()) });
	like!(ctx, "LinkedList<&T>/LinkedList<T>", LinkedList<&u8> => LinkedList<u8>, LinkedList<u8>, |b| b.iter().collect());
	like!(ctx, "BinaryHeap/BinaryHeap", BinaryHeap<u32> => BinaryHeap<u32>, BinaryHeap<u32>, |b| b.clone());
	like!(ctx, "BinaryHeap/&[(T,)]", BinaryHeap<i16> => &[(i16,)], BinaryHeap<i16>, |b| b.clone());
	like!(ctx, "BinaryHeap<&T>/BinaryHeap<T>", BinaryHeap<&u8> => BinaryHeap<u8>, BinaryHeap<u8>, |b| b.iter().collect());
	like!(ctx, "Result<Box<T>,&E>/Result<T,E>", Result<Box<u32>, &bool> => Result<u32, bool>, Result<u32, bool>, |b| match &b { Ok(x) => Ok(Box::new(*x)), Err(e) => Err(e) });
	like!(ctx, "Option<Option<&T>>/Option<Option<T>>", Option<Option<&u16>> => Option<Option<u16>>, Option<Option<u16>>, |b| b.as_ref().map(|x| x.as_ref()));
	like!(ctx, "[Option<&T>;2]/[Option<T>;2]", [Option<&u8>; 2] => [Option<u8>; 2], [Option<u8>; 2], |b| [b[0].as_ref(), b[1].as_ref()]);
	like!(ctx, "Cow<Vec<T>>/Vec<T>", Cow<Vec<u16>> => Vec<u16>, Vec<u16>, |b| Cow::Borrowed(&b));
	like!(ctx, "&&mut-free chain &&&T via Ref", Ref<&&u32, u32> => u32, u32, |b| Ref::from(leak_box(leak_box(leak_box(b) as &u32) as &&u32)));
	like!(ctx, "&[(T,)]/BinaryHeap", &[(u32,)] => BinaryHeap<u32>, BinaryHeap<u32>, |b| { leak_vec(b.iter().map(|x| (*x,)).collect()) });
	// compact
	like!(ctx, "Compact self", Compact<u64> => Compact<u64>, Compact<u64>, |b| b);
	like!(ctx, "CompactRef<u32>/Compact<u32>", WrapCR<u32> => Compact<u32>, Compact<u32>, |b| WrapCR(b.0));
	like!(ctx, "CompactRef<u128>/Compact<u128>", WrapCR<u128> => Compact<u128>, Compact<u128>, |b| WrapCR(b.0));
	#[cfg(feature = "derive")]
	{
		like!(ctx, "CompactRef<CA>", WrapCRCA => Compact<CA>, Compact<CA>, |b| WrapCRCA(b.0));
		like!(ctx, "derive self", SNamed => SNamed, SNamed, |b| b.clone());
		like!(ctx, "derive self (compact fields)", SCompact => SCompact, SCompact, |b| b);
		like!(ctx, "derive self (encoded_as)", SEncodedAs => SEncodedAs, SEncodedAs, |b| b);
		like!(ctx, "&derive (skipped variant)/derive", &ESkip => ESkip, ESkip, |b| &b);
		like!(ctx, "Box<derive>/derive (index attrs)", Box<EIdx> => EIdx, EIdx, |b| Box::new(b));
		like!(ctx, "Option<&derive>/Option<derive>", Option<&SSingleCompact> => Option<SSingleCompact>, Option<SSingleCompact>, |b| b.as_ref());
		like!(ctx, "[&derive;2]/[derive;2]", [&STuple; 2] => [STuple; 2], [STuple; 2], |b| [&b[0], &b[1]]);
		// zero-sized in memory, one byte on the wire: boxes must still read it
		like!(ctx, "zst/Box<zst>", (EV1, u8) => (Box<EV1>, u8), (Box<EV1>, u8), |b| (EV1::V1, b.1));
		like!(ctx, "zst/Rc<zst>", (EV1, u16) => (Rc<EV1>, u16), (Rc<EV1>, u16), |b| (EV1::V1, b.1));
		like!(ctx, "Vec<zst>/Vec<Arc<zst>>", Vec<EV1> => Vec<Arc<EV1>>, Vec<Arc<EV1>>, |b| b.iter().map(|_| EV1::V1).collect());
		// slices of zero-sized items that still have a one-byte encoding, against the collections they alias
		like!(ctx, "&[(zst,)]/LinkedList<zst>", &[(EV1,)] => LinkedList<EV1>, LinkedList<EV1>, |b| leak_vec(b.iter().map(|_| (EV1::V1,)).collect()));
		like!(ctx, "&[zst]/Vec<zst>", &[EV1] => Vec<EV1>, Vec<EV1>, |b| leak_vec(b.clone()));
		like!(ctx, "&[(u8,zst)]/BTreeMap<u8,zst>", &[(u8, EV1)] => BTreeMap<u8, EV1>, BTreeMap<u8, EV1>, |b| leak_vec(b.iter().map(|(k, _)| (*k, EV1::V1)).collect()));
		// transparent structs whose fields carry attributes or zero-sized companions: the wrappers decode in place
		like!(ctx, "transp(compact+marker)/Box", STranspCM => Box<STranspCM>, Box<STranspCM>, |b| *b);
		like!(ctx, "[&transp(compact+marker);3]/[..;3]", [&STranspCM; 3] => [STranspCM; 3], [STranspCM; 3], |b| [&b[0], &b[1], &b[2]]);
		like!(ctx, "transp(compact+marker)/Rc", (u8, STranspCM) => (u8, Rc<STranspCM>), (u8, Rc<STranspCM>), |b| (b.0, *b.1));
		like!(ctx, "transp(marker+encoded_as)/Arc", STranspEA => Arc<STranspEA>, Arc<STranspEA>, |b| *b);
		like!(ctx, "[Box<transp(encoded_as)>;2]/[..;2]", [Box<STranspEA>; 2] => [STranspEA; 2], [STranspEA; 2], |b| [Box::new(b[0]), Box::new(b[1])]);
		like!(ctx, "transp(compact)/Box", STranspC => Box<STranspC>, Box<STranspC>, |b| *b);
		like!(ctx, "transp(skip)/Box", (STranspSk, u8) => (Box<STranspSk>, u8), (Box<STranspSk>, u8), |b| ((*b.0).clone(), b.1));
		like!(ctx, "transp(zst variant)/Box", STranspZ => Box<STranspZ>, Box<STranspZ>, |b| (*b).clone());
		like!(ctx, "transp/Box", STransp => Box<STransp>, Box<STransp>, |b| (*b).clone());
		like!(ctx, "[&transp;3]/[transp;3]", [&STransp; 3] => [STransp; 3], [STransp; 3], |b| [&b[0], &b[1], &b[2]]);
		like!(ctx, "&derive/derive", &EPlain => EPlain, EPlain, |b| &b);
		like!(ctx, "Vec<&derive>/Vec<derive>", Vec<&SCompact> => Vec<SCompact>, Vec<SCompact>, |b| b.iter().collect());
	}
	// the generic reference wrapper
	like!(ctx, "Ref<Box<T>,T>", Ref<Box<u32>, u32> => u32, u32, |b| { Ref::from(leak_box(Box::new(b))) });
	like!(ctx, "&Ref<&T,T>", &Ref<&String, String> => String, String, |b| { leak_box(Ref::from(leak_box(leak_box(b.clone()) as &String))) as &Ref<&String, String> });
	// unsized targets behind the wrappers (Encode-only forms; no EncodeLike declaration involved, the bytes must
	// simply be those of the owned value)
	{
		use crate::drivers::emit_like;
		use crate::reg::Reg;
		let mut g = ctx.rng_for("unsized", 9);
		for _ in 0..(12 * ctx.scale) {
			let s = <String as Reg>::gen(&mut g);
			let bs: Box<str> = s.clone().into_boxed_str();
			emit_like::<Box<str>, String>(ctx, "Box<str>", &bs, &s);
			let rs: Rc<str> = Rc::from(s.as_str());
			emit_like::<Rc<str>, String>(ctx, "Rc<str>", &rs, &s);
			let ars: Arc<str> = Arc::from(s.as_str());
			emit_like::<Arc<str>, String>(ctx, "Arc<str>", &ars, &s);
			let cs: Cow<str> = Cow::Borrowed(s.as_str());
			emit_like::<Cow<str>, String>(ctx, "Cow<str>", &cs, &s);
			let t1 = (s.clone(),);
			emit_like::<(String,), String>(ctx, "(String,)", &t1, &s);
			let v = <Vec<u16> as Reg>::gen(&mut g);
			let bv: Box<[u16]> = v.clone().into_boxed_slice();
			emit_like::<Box<[u16]>, Vec<u16>>(ctx, "Box<[u16]>", &bv, &v);
			let rv: Rc<[u16]> = Rc::from(&v[..]);
			emit_like::<Rc<[u16]>, Vec<u16>>(ctx, "Rc<[u16]>", &rv, &v);
			let cv: Cow<[u16]> = Cow::Borrowed(&v[..]);
			emit_like::<Cow<[u16]>, Vec<u16>>(ctx, "Cow<[u16]>", &cv, &v);
			let mut mv = v.clone();
			let mr: &mut [u16] = &mut mv[..];
			emit_like::<&mut [u16], Vec<u16>>(ctx, "&mut [u16]", &mr, &v);
			let w = <Vec<String> as Reg>::gen(&mut g);
			let aw: Arc<[String]> = Arc::from(w.clone());
			emit_like::<Arc<[String]>, Vec<String>>(ctx, "Arc<[String]>", &aw, &w);
		}
	}
	#[cfg(feature = "bit-vec")]
	{
		use bitvec::{order::Msb0, vec::BitVec};
		like!(ctx, "BitVec self", BitVec<u16, Msb0> => BitVec<u16, Msb0>, BitVec<u16, Msb0>, |b| b.clone());
		// the same bits held at a non-zero offset inside the first storage element (what split_off / sub-slices leave)
		like!(ctx, "BitVec(head 3)/BitVec u8", BitVec<u8, Msb0> => BitVec<u8, Msb0>, BitVec<u8, Msb0>, |b| {
			let mut t: BitVec<u8, Msb0> = BitVec::repeat(true, 3); t.extend_from_bitslice(&b); BitVec::from_bitslice(&t[3..]) });
		like!(ctx, "BitVec(head 5)/BitVec u16", BitVec<u16, bitvec::order::Lsb0> => BitVec<u16, bitvec::order::Lsb0>, BitVec<u16, bitvec::order::Lsb0>, |b| {
			let mut t: BitVec<u16, bitvec::order::Lsb0> = BitVec::repeat(true, 5); t.extend_from_bitslice(&b); BitVec::from_bitslice(&t[5..]) });
		like!(ctx, "BitVec(head 1)/BitVec u32", BitVec<u32, Msb0> => BitVec<u32, Msb0>, BitVec<u32, Msb0>, |b| {
			let mut t: BitVec<u32, Msb0> = BitVec::repeat(true, 1); t.extend_from_bitslice(&b); t.split_off(1) });
		like!(ctx, "BitBox(head 2) self u8", bitvec::boxed::BitBox<u8, bitvec::order::Lsb0> => bitvec::boxed::BitBox<u8, bitvec::order::Lsb0>, bitvec::boxed::BitBox<u8, bitvec::order::Lsb0>, |b| {
			let mut t: BitVec<u8, bitvec::order::Lsb0> = BitVec::repeat(true, 2); t.extend_from_bitslice(&b); bitvec::boxed::BitBox::from_bitslice(&t[2..]) });
	}
	#[cfg(feature = "generic-array")]
	{
		use generic_array::{typenum::U3, GenericArray};
		like!(ctx, "GenericArray self", GenericArray<u16, U3> => GenericArray<u16, U3>, GenericArray<u16, U3>, |b| b.clone());
	}
}

// helpers: leak small temporaries so that borrowed forms outlive the macro's statement
fn leak_box<T>(t: T) -> &'static T { Box::leak(Box::new(t)) }
fn leak_mut<T>(t: T) -> &'static mut T { Box::leak(Box::new(t)) }
fn leak_vec<T>(v: Vec<T>) -> &'static [T] { Box::leak(v.into_boxed_slice()) }
thread_local! { static KV: std::cell::RefCell<Vec<(u8, u16)>> = std::cell::RefCell::new(Vec::new()); }
fn leak_kv() -> &'static [(u8, u16)] { KV.with(|c| leak_vec(c.borrow().clone())) }

/// `CompactRef` borrows: wrap an owned value so that the macro can build it from `b`
pub struct WrapCR<T>(pub T);
impl<T> parity_scale_codec::Encode for WrapCR<T> where for<'a> CompactRef<'a, T>: parity_scale_codec::Encode {
	fn encode_to<W: parity_scale_codec::Output + ?Sized>(&self, dest: &mut W) { CompactRef(&self.0).encode_to(dest) }
	fn encode(&self) -> Vec<u8> { CompactRef(&self.0).encode() }
	fn using_encoded<R, F: FnOnce(&[u8]) -> R>(&self, f: F) -> R { CompactRef(&self.0).using_encoded(f) }
	fn size_hint(&self) -> usize { CompactRef(&self.0).size_hint() }
}
impl<T> parity_scale_codec::EncodeLike<Compact<T>> for WrapCR<T> where for<'a> CompactRef<'a, T>: parity_scale_codec::Encode, Compact<T>: parity_scale_codec::Encode {}
#[cfg(feature = "derive")]
pub struct WrapCRCA(pub CA);
#[cfg(feature = "derive")]
impl parity_scale_codec::Encode for WrapCRCA {
	fn encode_to<W: parity_scale_codec::Output + ?Sized>(&self, dest: &mut W) { CompactRef(&self.0).encode_to(dest) }
	fn encode(&self) -> Vec<u8> { CompactRef(&self.0).encode() }
	fn using_encoded<R, F: FnOnce(&[u8]) -> R>(&self, f: F) -> R { CompactRef(&self.0).using_encoded(f) }
}
#[cfg(feature = "derive")]
impl parity_scale_codec::EncodeLike<Compact<CA>> for WrapCRCA {}
