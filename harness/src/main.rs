//! vharness: drives parity-scale-codec (path dependency on /repo, rebuilt from its working tree)
//! and writes ndjson traces that TLC validates against the TLA+ specification.

mod drivers;
#[cfg(feature = "generated")]
mod generated;
mod ledger;
mod faults;
mod likes;
mod mutate;
mod recin;
mod reg;
mod rng;
mod types;

use drivers::*;

#[global_allocator]
static GLOBAL: ledger::Ledger = ledger::Ledger;
use parity_scale_codec::{Compact, OptionBool};
use std::borrow::Cow;
use std::collections::{BTreeMap, BTreeSet, BinaryHeap, LinkedList, VecDeque};
use std::io::Write;
use std::marker::PhantomData;
use std::num::*;
use std::ops::{Range, RangeInclusive};
use std::rc::Rc;
use std::sync::Arc;
use std::time::Duration;
use types::*;

#[cfg(feature = "bit-vec")]
use bitvec::{boxed::BitBox, order::{Lsb0, Msb0}, vec::BitVec};

/// Types that are Encode + Decode.  `$f::<T>(ctx, args...)` is called for each.
macro_rules! each_codec_type {
	($f:ident, $args:tt) => {{
		each_codec_type!(@list $f, $args;
			u8, u16, u32, u64, u128, i8, i16, i32, i64, i128, f32, f64, bool, (), OptionBool, Duration,
			Compact<()>, Compact<u8>, Compact<u16>, Compact<u32>, Compact<u64>, Compact<u128>,
			NonZeroU8, NonZeroU16, NonZeroU32, NonZeroU64, NonZeroU128,
			NonZeroI8, NonZeroI16, NonZeroI32, NonZeroI64, NonZeroI128, PhantomData<u32>,
			Option<u8>, Option<bool>, Option<Option<bool>>, Option<u64>, Option<String>, Option<()>,
			Result<u8, bool>, Result<Vec<u8>, String>, Result<(), u32>, Result<Compact<u32>, Option<u16>>,
			String, Cow<'static, String>, Box<String>,
			TwU8, TwI8, TwU16, TwI16, TwU32, TwI32, TwU64, TwI64, TwU128, TwI128, TwF32, TwF64,
			(u8,), (u8, u16), (u16, String, bool), (Compact<u64>, i8, Option<u8>, Vec<u16>),
			(u8, u8, u8, u8, u8, u8, u8, u8, u8, u8, u8, u8, u8, u8, u8, u8, u8, u16),
			((), ()), (Vec<u8>, u32),
			[u8; 0], [u8; 1], [u8; 2], [u8; 32], [u8; 33], [u16; 3], [u32; 2], [i64; 5], [u128; 2], [f32; 3], [i128; 1],
			[bool; 3], [Option<u8>; 2], [String; 2], [TwU16; 3], [(); 4], [[u8; 2]; 3], [Vec<u8>; 2],
			Range<u32>, RangeInclusive<i16>, Range<Compact<u64>>,
			Box<u32>, Rc<u64>, Arc<i16>, Box<()>, Box<Box<u32>>, Box<[u8; 1000]>, Box<[u16; 3]>, Rc<String>, Arc<Vec<u32>>,
			Cow<'static, u32>, Box<Option<Box<u8>>>, Rc<(u8, Vec<u8>)>,
			BTreeSet<u8>, BTreeSet<u32>, BTreeSet<String>, BTreeSet<Vec<u8>>, BTreeSet<i16>, BTreeSet<(u8, i8)>,
			BTreeMap<u8, u16>, BTreeMap<u8, [u64; 64]>, BTreeMap<u32, String>, BTreeMap<String, Vec<u8>>, BTreeMap<i8, ()>, BTreeMap<u16, BTreeSet<u8>>,
			BinaryHeap<u8>, BinaryHeap<u32>, BinaryHeap<i16>, BinaryHeap<String>,
			LinkedList<u8>, LinkedList<u32>, LinkedList<String>, LinkedList<()>, LinkedList<Option<u16>>,
			Vec<Vec<Vec<Vec<u8>>>>, Vec<Option<Box<String>>>, BTreeMap<u8, Vec<BTreeSet<u16>>>,
			Option<(Vec<u8>, Box<[u16; 3]>)>, Vec<(u8, u32)>, Vec<Vec<u16>>, VecDeque<Vec<u8>>, Vec<Box<u16>>,
			Vec<Rc<u8>>, Vec<BTreeMap<u8, u8>>, LinkedList<Vec<u32>>, Option<Vec<Option<Vec<u8>>>>,
			Vec<NonZeroU128>, Vec<NonZeroU8>, [NonZeroU32; 3], VecDeque<NonZeroI16>, Box<[NonZeroU64; 2]>, Vec<NonZeroI128>,
			Hdr, [Hdr; 3], [[Hdr; 2]; 2], Vec<Hdr>, Option<[Hdr; 1]>,
			[u8; 20000], ([u32; 5000], u8), Box<[u16; 9000]>,
			[OptionBool; 3], [Option<bool>; 4], [Compact<u8>; 3], Box<[Option<bool>; 2]>, [i8; 3], [Option<NonZeroU8>; 2]
		);
		each_seq_type!($f, $args);
		each_feature_type!($f, $args);
	}};
	(@list $f:ident, $args:tt; $($t:ty),* $(,)?) => {
		$( {
			// does this type declare DecodeWithMemTracking? (autoref specialisation, resolved per concrete type)
			MT.with(|m| m.set((&&Probe::<$t>(PhantomData)).is_mt()));
			drivers::MLF.with(|m| m.set((&&Probe::<$t>(PhantomData)).mlf()));
			$f::<$t> $args;
		} )*
	};
}

/// Vec/VecDeque over every primitive, their twins and a few composite element types.
macro_rules! each_seq_type {
	($f:ident, $args:tt) => {
		each_codec_type!(@list $f, $args;
			Vec<u8>, Vec<i8>, Vec<u16>, Vec<i16>, Vec<u32>, Vec<i32>, Vec<u64>, Vec<i64>, Vec<u128>, Vec<i128>, Vec<f32>, Vec<f64>,
			Vec<TwU8>, Vec<TwI8>, Vec<TwU16>, Vec<TwI16>, Vec<TwU32>, Vec<TwI32>, Vec<TwU64>, Vec<TwI64>, Vec<TwU128>,
			Vec<TwI128>, Vec<TwF32>, Vec<TwF64>,
			VecDeque<u8>, VecDeque<i8>, VecDeque<u16>, VecDeque<i16>, VecDeque<u32>, VecDeque<i32>, VecDeque<u64>,
			VecDeque<i64>, VecDeque<u128>, VecDeque<i128>, VecDeque<f32>, VecDeque<f64>,
			VecDeque<TwU16>, VecDeque<TwU64>, VecDeque<String>, VecDeque<bool>,
			Vec<bool>, Vec<()>, Vec<Option<u16>>, Vec<String>, Vec<Compact<u32>>, Vec<OptionBool>, Vec<[u8; 3]>,
			Vec<NonZeroU16>, Vec<Duration>, VecDeque<()>, Cow<'static, Vec<u16>>, Vec<[u8; 0]>, Vec<PhantomData<u32>>,
			(Vec<()>, u32), (LinkedList<()>, (), ())
		);
	};
}

macro_rules! each_feature_type {
	($f:ident, $args:tt) => {
		#[cfg(feature = "derive")]
		each_codec_type!(@list $f, $args;
			SNamed, STuple, SUnit, SCompact, SSkip, SSingleCompact, SSingle, SEncodedAs, SGeneric<u16>, SGeneric<String>,
			STransp, Box<STransp>, [STransp; 3], Box<STranspBig>, Vec<STransp>, CA, Compact<CA>, SHasCompact,
			EPlain, EDisc, EIdx, ESkip, EBoth, SWide, EWide, Vec<SWide>, STranspSk, Box<STranspSk>, (Box<STranspSk>, u32), [STranspSk; 2],
			[EV1; 3], Vec<[EV1; 2]>, ([EV1; 2], u8), Vec<EV1>, LinkedList<EV1>, BTreeMap<u8, EV1>, LinkedList<SZ>, Vec<STranspBig>, Vec<[u64; 100]>, VecDeque<[u32; 70]>, BinaryHeap<[u8; 200]>, (u8, Vec<[u16; 300]>), SZ, Vec<SZ>, (Vec<SZ>, u8), STranspCM, Box<STranspCM>, [STranspCM; 3], Box<STranspEA>, [STranspEA; 2], EV1, Box<EV1>, Rc<EV1>, (Box<EV1>, u8), Vec<Box<EV1>>, [Box<EV1>; 2], STranspZ, Box<STranspZ>, [STranspZ; 3], Rc<STranspZ>, (Box<STranspZ>, u16), STranspC, Box<STranspC>, [STranspC; 3], Rc<STranspC>, (u8, Box<STransp>), Vec<EPlain>, Option<EIdx>, [ESkip; 2], Box<EPlain>,
			SMelGeneric<u32>, SMelCA, EMelCompact, EMelShapes, CA16, Compact<CA16>, SMelCA16, RV, RB, Tree, RM, RL, Vec<SNamed>, Vec<SUnit>, BTreeMap<u8, EPlain>, Vec<SCompact>
		);
		#[cfg(feature = "bit-vec")]
		each_codec_type!(@list $f, $args;
			BitVec<u8, Lsb0>, BitVec<u8, Msb0>, BitVec<u16, Lsb0>, BitVec<u16, Msb0>,
			BitVec<u32, Lsb0>, BitVec<u32, Msb0>, BitVec<u64, Lsb0>, BitVec<u64, Msb0>,
			BitBox<u8, Lsb0>, BitBox<u16, Msb0>, BitBox<u32, Lsb0>, BitBox<u64, Msb0>,
			Vec<BitVec<u8, Msb0>>, Option<BitVec<u16, Lsb0>>
		);
		#[cfg(feature = "bytes")]
		each_codec_type!(@list $f, $args; bytes::Bytes, Vec<bytes::Bytes>, (u8, bytes::Bytes), Option<bytes::Bytes>,
			(bytes::Bytes, u32), (u8, bytes::Bytes, bytes::Bytes, u8), (bytes::Bytes, Vec<u16>, String));
		#[cfg(feature = "generic-array")]
		each_codec_type!(@list $f, $args;
			generic_array::GenericArray<u8, generic_array::typenum::U3>,
			generic_array::GenericArray<u16, generic_array::typenum::U7>,
			generic_array::GenericArray<String, generic_array::typenum::U2>
		);
	};
}

/// Types declaring MaxEncodedLen.
#[cfg(feature = "max-encoded-len")]
macro_rules! each_mel_type {
	($f:ident, $args:tt) => {{
		each_mel_type!(@list $f, $args;
			u8, u16, u32, u64, u128, i8, i16, i32, i64, i128, bool,
			NonZeroU8, NonZeroU16, NonZeroU32, NonZeroU64, NonZeroU128, NonZeroI8, NonZeroI16, NonZeroI32, NonZeroI64, NonZeroI128,
			Compact<()>, Compact<u8>, Compact<u16>, Compact<u32>, Compact<u64>, Compact<u128>,
			(u8,), (u8, u16), (Compact<u64>, i8, Option<u8>), (Compact<u128>, Compact<u32>, bool, [u16; 3]),
			(u8, u8, u8, u8, u8, u8, u8, u8, u8, u8, u8, u8, u8, u8, u8, u8, u8, u16),
			[u8; 0], [u8; 32], [u16; 3], [Option<u8>; 2], [Compact<u32>; 3], [bool; 3],
			Box<u32>, Arc<i16>, Box<Compact<u64>>, Box<[u8; 1000]>,
			Option<u8>, Option<bool>, Option<Option<bool>>, Option<Compact<u128>>,
			Result<u8, bool>, Result<(), u32>, Result<Compact<u32>, Option<u16>>, Result<u128, u8>,
			PhantomData<u32>, Duration, Range<u32>, RangeInclusive<i16>, Range<Compact<u64>>
		);
		#[cfg(feature = "derive")]
		each_mel_type!(@list $f, $args;
			STuple, SUnit, SCompact, SSkip, SSingleCompact, SEncodedAs, STransp, CA, EDisc, EIdx, ESkip, EBoth,
			[SCompact; 2], Option<SEncodedAs>, (SSingleCompact, u8), SMelGeneric<u32>, SMelGeneric<u64>, SMelCA, EMelCompact,
			EMelShapes, CA16, Compact<CA16>, SMelCA16, [SMelCA16; 2], Option<EMelShapes>
		);
	}};
	(@list $f:ident, $args:tt; $($t:ty),* $(,)?) => {
		$( {
			MT.with(|m| m.set((&&ProbeC::<$t>(PhantomData)).is_cel()));
			$f::<$t> $args;
		} )*
	};
}
#[cfg(feature = "max-encoded-len")]
struct ProbeC<T>(PhantomData<T>);
#[cfg(feature = "max-encoded-len")]
trait IsCel { fn is_cel(&self) -> bool; }
#[cfg(feature = "max-encoded-len")]
impl<T: parity_scale_codec::ConstEncodedLen> IsCel for &ProbeC<T> { fn is_cel(&self) -> bool { true } }
#[cfg(feature = "max-encoded-len")]
trait NotCel { fn is_cel(&self) -> bool; }
#[cfg(feature = "max-encoded-len")]
impl<T> NotCel for ProbeC<T> { fn is_cel(&self) -> bool { false } }
#[cfg(feature = "max-encoded-len")]
fn mel_one<T: reg::Reg + parity_scale_codec::Encode + parity_scale_codec::MaxEncodedLen>(ctx: &mut Ctx) {
	drive_mel::<T>(ctx, MT.with(|m| m.get()))
}
fn fixed_one<T: reg::Reg + parity_scale_codec::Encode + parity_scale_codec::Decode>(ctx: &mut Ctx) {
	drive_fixed::<T>(ctx)
}

fn ident_val(a: &serde_json::Value) -> serde_json::Value { a.clone() }
fn first_val(a: &serde_json::Value) -> serde_json::Value { a[0].clone() }
fn len_self<T: reg::Reg + parity_scale_codec::Encode + parity_scale_codec::DecodeLength>(ctx: &mut Ctx) { drive_len::<T>(ctx, ident_val) }
fn len_first<T: reg::Reg + parity_scale_codec::Encode + parity_scale_codec::DecodeLength>(ctx: &mut Ctx) { drive_len::<T>(ctx, first_val) }
macro_rules! each_len_type {
	($ctx:expr) => {{
		each_codec_type!(@list len_self, ($ctx);
			Vec<u8>, Vec<u32>, Vec<()>, Vec<String>, Vec<Option<u16>>, VecDeque<u16>, VecDeque<()>, VecDeque<String>,
			BTreeSet<u32>, BTreeSet<String>, BTreeMap<u8, u16>, BTreeMap<u32, String>, BinaryHeap<u32>, BinaryHeap<u8>,
			LinkedList<u8>, LinkedList<()>, LinkedList<String>, Vec<[u8; 0]>, Vec<PhantomData<u32>>, Vec<bool>);
		each_codec_type!(@list len_first, ($ctx);
			(Vec<u8>,), (Vec<()>, u32), (Vec<u16>, String, bool), (BTreeMap<u8, u16>, u8), (LinkedList<()>, (), ()), (VecDeque<u32>, Vec<u8>),
			(BTreeSet<u32>, u8, u8, u8), (BinaryHeap<u8>, u16));
	}};
}

thread_local! { static MT: std::cell::Cell<bool> = std::cell::Cell::new(false); }
struct Probe<T>(PhantomData<T>);
trait IsMt { fn is_mt(&self) -> bool; fn mlf(&self) -> Option<drivers::MemLimitFn>; }
impl<T: parity_scale_codec::DecodeWithMemTracking + reg::Reg> IsMt for &Probe<T> {
	fn is_mt(&self) -> bool { true }
	fn mlf(&self) -> Option<drivers::MemLimitFn> { Some(drivers::mem_limit_entry::<T>) }
}
trait NotMt { fn is_mt(&self) -> bool; fn mlf(&self) -> Option<drivers::MemLimitFn>; }
impl<T> NotMt for Probe<T> { fn is_mt(&self) -> bool { false } fn mlf(&self) -> Option<drivers::MemLimitFn> { None } }

fn enc_one<T: reg::Reg + parity_scale_codec::Encode>(ctx: &mut Ctx) {
	drive_enc::<T>(ctx)
}
fn entries_one<T: reg::Reg + parity_scale_codec::Encode>(ctx: &mut Ctx) {
	drive_entries::<T>(ctx)
}
fn heap_one<T: reg::Reg + parity_scale_codec::Encode + parity_scale_codec::Decode>(ctx: &mut Ctx) {
	drive_heap::<T>(ctx)
}
fn join_one<T: reg::Reg + parity_scale_codec::Encode + parity_scale_codec::Decode>(ctx: &mut Ctx) {
	drive_join::<T>(ctx)
}
fn rt_one<T: reg::Reg + parity_scale_codec::Encode + parity_scale_codec::Decode>(ctx: &mut Ctx) {
	drive_rt::<T>(ctx, None)
}
fn rt_seq<T: reg::Reg + parity_scale_codec::Encode + parity_scale_codec::Decode>(ctx: &mut Ctx) {
	// element size from the descriptor
	let d = T::descr();
	let sz = d.get("t").and_then(|t| t.get("sz")).and_then(|s| s.as_u64()).unwrap_or(1) as usize;
	drive_rt::<T>(ctx, Some(sz))
}
fn dec_one<T: reg::Reg + parity_scale_codec::Encode + parity_scale_codec::Decode>(ctx: &mut Ctx) {
	drive_dec::<T>(ctx, MT.with(|m| m.get()))
}

fn main() {
	std::panic::set_hook(Box::new(|_| {}));
	let args: Vec<String> = std::env::args().collect();
	let mut prop = String::new();
	let mut tier = "quick".to_string();
	let mut seed = 0u64;
	let mut out_path = String::new();
	let mut type_filter = None;
	let mut type_exact = None;
	let mut listing = false;
	let mut scale = 1usize;
	let mut part = String::new();
	let mut i = 1;
	let cmd = args.get(1).cloned().unwrap_or_default();
	i += 1;
	while i < args.len() {
		match args[i].as_str() {
			"--prop" => { prop = args[i + 1].clone(); i += 2 },
			"--tier" => { tier = args[i + 1].clone(); i += 2 },
			"--seed" => { seed = args[i + 1].parse().unwrap(); i += 2 },
			"--out" => { out_path = args[i + 1].clone(); i += 2 },
			"--types" => { type_filter = Some(args[i + 1].clone()); i += 2 },
			"--type-exact" => { type_exact = Some(args[i + 1].clone()); i += 2 },
			"--list" => { listing = true; i += 1 },
			"--scale" => { scale = args[i + 1].parse().unwrap(); i += 2 },
			"--part" => { part = args[i + 1].clone(); i += 2 },
			x => { eprintln!("unknown arg {}", x); std::process::exit(2) },
		}
	}
	let out: Box<dyn Write> = if out_path.is_empty() {
		Box::new(std::io::BufWriter::new(std::io::stdout()))
	} else {
		Box::new(std::io::BufWriter::new(std::fs::File::create(&out_path).expect("create out")))
	};
	let mut ctx = Ctx {
		prop: prop.clone(), tier, seed, out, records: 0, scale, type_filter, type_exact, listing,
		per_type: Default::default(), stats: Default::default(),
	};
	match cmd.as_str() {
		"gen" => match prop.as_str() {
			"C01" => {
				each_codec_type!(enc_one, (&mut ctx));
				// Encode-only forms (&T, &[T], &str, Cow, CompactRef, Ref, borrowed collections): their bytes against the owned type's descriptor
				likes::drive(&mut ctx);
				drive_enc_maxcount(&mut ctx);
			},
			"C02" => {
				each_codec_type!(rt_one, (&mut ctx));
				each_seq_type!(rt_seq, (&mut ctx));
				drive_rt_exhausted(&mut ctx);
			},
			"C20" => {
				each_codec_type!(enc_one, (&mut ctx));
				ctx.prop = "C03".into();
				each_codec_type!(dec_one, (&mut ctx));
				// the types that exist only with an optional integration, also under the limit wrappers
				ctx.prop = "C11".into();
				each_feature_type!(dec_one, (&mut ctx));
				ctx.prop = "C12".into();
				each_feature_type!(dec_one, (&mut ctx));
			},
			"C05" => {
				#[cfg(feature = "derive")]
				{
					each_feature_type!(enc_one, (&mut ctx));
					each_feature_type!(rt_one, (&mut ctx));
				}
				#[cfg(feature = "generated")]
				{
					each_generated_type!(enc_one, (&mut ctx));
					each_generated_type!(rt_one, (&mut ctx));
					each_generated_type!(dec_one, (&mut ctx));
					let mut g = rng::G::new(ctx.seed);
					for (tn, alts, r) in generated::skipped_values(&mut g) {
						let rec = match r {
							Ok(out) => serde_json::json!({"k":"skipenc","tn":tn,"res":"ok","out":out,"alts":alts}),
							Err(()) => serde_json::json!({"k":"skipenc","tn":tn,"res":"panic","out":[],"alts":alts}),
						};
						ctx.emit(&tn, rec);
					}
				}
			},
			"C09" => { each_codec_type!(heap_one, (&mut ctx)); },
			"C10" => { faults::drive(&mut ctx); },
			"C07" => {
				each_codec_type!(entries_one, (&mut ctx));
				each_codec_type!(join_one, (&mut ctx));
				each_seq_type!(rt_seq, (&mut ctx));
				each_codec_type!(@list rt_one, (&mut ctx); [u8; 32], [u8; 33], [u16; 3], [u32; 2], [i64; 5], [u128; 2], [f32; 3], [i128; 1], [TwU16; 3]);
			},
			"C16" => { likes::drive(&mut ctx); },
			"C15" => {
				use drivers::append::*;
				drive_items::<Vec<u8>, u8>(&mut ctx, "Vec<u8>");
				drive_items::<Vec<u32>, u32>(&mut ctx, "Vec<u32>");
				drive_items::<Vec<String>, String>(&mut ctx, "Vec<String>");
				drive_items::<Vec<Vec<u8>>, Vec<u8>>(&mut ctx, "Vec<Vec<u8>>");
				drive_items::<VecDeque<u16>, u16>(&mut ctx, "VecDeque<u16>");
				drive_items::<VecDeque<Option<u8>>, Option<u8>>(&mut ctx, "VecDeque<Option<u8>>");
				#[cfg(feature = "derive")]
				drive_items::<Vec<SCompact>, SCompact>(&mut ctx, "Vec<SCompact>");
				#[cfg(feature = "derive")]
				drive_items::<Vec<EPlain>, EPlain>(&mut ctx, "Vec<EPlain>");
				#[cfg(feature = "derive")]
				drive_items::<Vec<EV1>, EV1>(&mut ctx, "Vec<EV1>");
				#[cfg(feature = "derive")]
				drive_items::<VecDeque<EV1>, EV1>(&mut ctx, "VecDeque<EV1>");
				drive_units::<Vec<()>>(&mut ctx, "Vec<()>");
				drive_units::<VecDeque<()>>(&mut ctx, "VecDeque<()>");
			},
			"C06" => {
				use drivers::hist::*;
				deque::<u8>(&mut ctx); deque::<u16>(&mut ctx); deque::<u32>(&mut ctx); deque::<i64>(&mut ctx); deque::<u128>(&mut ctx);
				deque::<String>(&mut ctx); deque::<TwU16>(&mut ctx); deque::<bool>(&mut ctx); deque::<Option<u16>>(&mut ctx);
				vector::<u16>(&mut ctx); vector::<String>(&mut ctx); list::<u16>(&mut ctx); list::<String>(&mut ctx);
				map::<u8, u16>(&mut ctx); map::<u32, String>(&mut ctx); map::<String, Vec<u8>>(&mut ctx); map::<i8, ()>(&mut ctx);
				set::<u32>(&mut ctx); set::<String>(&mut ctx); set::<i16>(&mut ctx); heap::<u8>(&mut ctx); heap::<i16>(&mut ctx);
				string(&mut ctx);
				// holders (borrowed, boxed, shared, copy-on-write, element-wise) against the plain value
				likes::drive(&mut ctx);
				#[cfg(feature = "bit-vec")]
				{
					bits::<u8, Lsb0>(&mut ctx); bits::<u8, Msb0>(&mut ctx); bits::<u16, Lsb0>(&mut ctx); bits::<u16, Msb0>(&mut ctx);
					bits::<u32, Lsb0>(&mut ctx); bits::<u32, Msb0>(&mut ctx); bits::<u64, Lsb0>(&mut ctx); bits::<u64, Msb0>(&mut ctx);
				}
			},
			"C13" => {
				#[cfg(feature = "max-encoded-len")]
				each_mel_type!(mel_one, (&mut ctx));
				#[cfg(all(feature = "max-encoded-len", feature = "generated"))]
				each_generated_mel_type!(mel_one, (&mut ctx));
				each_codec_type!(fixed_one, (&mut ctx));
			},
			"C04" => { drivers::compact::drive(&mut ctx, &part); },
			"C18" => { each_codec_type!(dec_one, (&mut ctx)); each_len_type!(&mut ctx); },
			"C11" => {
				each_codec_type!(dec_one, (&mut ctx));
				#[cfg(feature = "derive")]
				{
					// one more level: RV = count 1 then the inner vector; RB = Some(Box(..)); Tree = Node(left = .., right = Leaf)
					drive_deep::<RV>(&mut ctx, &[4], &[0]);
					drive_deep::<RB>(&mut ctx, &[1], &[0]);
					drive_deep::<RL>(&mut ctx, &[4], &[0]);
					drive_deep::<RM>(&mut ctx, &[4, 7], &[0]);
				}
			},
			"C14" => {
				each_codec_type!(dec_one, (&mut ctx));
				let mut ops = vec![
					cat_ops::<u8>(), cat_ops::<u32>(), cat_ops::<i128>(), cat_ops::<bool>(), cat_ops::<()>(), cat_ops::<Compact<u32>>(), cat_ops::<Compact<u128>>(),
					cat_ops::<Option<u16>>(), cat_ops::<Result<u8, bool>>(), cat_ops::<String>(), cat_ops::<Vec<u8>>(), cat_ops::<Vec<u32>>(), cat_ops::<Vec<String>>(),
					cat_ops::<VecDeque<u16>>(), cat_ops::<BTreeMap<u8, u16>>(), cat_ops::<BTreeSet<u32>>(), cat_ops::<LinkedList<u8>>(), cat_ops::<(u8, Vec<u8>)>(),
					cat_ops::<[u16; 3]>(), cat_ops::<Box<u64>>(), cat_ops::<Duration>(), cat_ops::<OptionBool>(), cat_ops::<NonZeroU32>(), cat_ops::<Vec<()>>(),
					cat_ops::<Vec<Vec<u8>>>(), cat_ops::<Option<Box<String>>>(), cat_ops::<f64>(),
				];
				#[cfg(feature = "derive")]
				ops.extend(vec![cat_ops::<SNamed>(), cat_ops::<EPlain>(), cat_ops::<SCompact>(), cat_ops::<Tree>(), cat_ops::<Box<STranspZ>>(), cat_ops::<EIdx>()]);
				#[cfg(feature = "bit-vec")]
				ops.extend(vec![cat_ops::<BitVec<u8, Msb0>>(), cat_ops::<BitVec<u32, Lsb0>>()]);
				#[cfg(feature = "bytes")]
				ops.extend(vec![cat_ops::<bytes::Bytes>()]);
				drive_cat(&mut ctx, &ops);
			},
			"C03" => {
				each_codec_type!(dec_one, (&mut ctx));
				#[cfg(feature = "bit-vec")]
				drive_bitcap(&mut ctx);
			},
			"C08" | "C12" => { each_codec_type!(dec_one, (&mut ctx)); },
			"C19" => { each_codec_type!(dec_one, (&mut ctx)); drivers::drive_cnt(&mut ctx); },
			_ => { eprintln!("unknown prop {}", prop); std::process::exit(2) },
		},
		_ => { eprintln!("usage: vharness gen --prop ID --tier T --seed N --out FILE"); std::process::exit(2) },
	}
	ctx.out.flush().unwrap();
	let summary = serde_json::json!({"records": ctx.records, "per_type": ctx.per_type, "stats": ctx.stats});
	eprintln!("SUMMARY {}", summary);
}
