//! Byte-string corpus for decoder properties: mutations of valid encodings, near-valid and
//! random strings.  Purely syntactic; nothing here depends on the codec under test except the
//! seed encodings handed in by the caller.

use crate::rng::G;

fn compact(n: u64) -> Vec<u8> {
	// reference compact encoder written from the format definition (not the crate's)
	if n < 1 << 6 {
		vec![(n as u8) << 2]
	} else if n < 1 << 14 {
		(((n as u16) << 2) | 1).to_le_bytes().to_vec()
	} else if n < 1 << 30 {
		(((n as u32) << 2) | 2).to_le_bytes().to_vec()
	} else {
		let mut v = vec![0u8];
		let mut x = n;
		while x > 0 {
			v.push(x as u8);
			x >>= 8;
		}
		while v.len() < 5 {
			v.push(0);
		}
		v[0] = 3 + (((v.len() - 5) as u8) << 2);
		v
	}
}

pub const BOUNDARY: [u8; 14] = [0, 1, 2, 3, 4, 5, 8, 0x3f, 0x40, 0x7f, 0x80, 0xfc, 0xfd, 0xff];

/// Returns (label, bytes).  `valid` are encodings of values of the type; `max_count` caps
/// tampered counts (types with zero-sized elements loop once per claimed element).
pub fn mutate(g: &mut G, valid: &[Vec<u8>], max_count: u64) -> (&'static str, Vec<u8>) {
	let base = if valid.is_empty() { vec![] } else { g.pick(valid).clone() };
	let mut b = base.clone();
	match g.below(14) {
		0 => ("valid", b),
		1 => {
			if !b.is_empty() {
				let i = g.below(b.len());
				b[i] ^= 1 << g.below(8);
			}
			("bitflip", b)
		},
		2 => {
			if !b.is_empty() {
				let i = g.below(b.len());
				b[i] = *g.pick(&BOUNDARY);
			}
			("boundary", b)
		},
		3 => {
			let cut = g.below(b.len() + 1);
			b.truncate(cut);
			("truncate", b)
		},
		4 => {
			let n = 1 + g.below(4);
			for _ in 0..n {
				b.push(g.byte());
			}
			("extend", b)
		},
		5 => {
			// replace a byte position by a compact count
			let counts: [u64; 12] = [0, 1, 63, 64, 16383, 16384, (1 << 30) - 1, 1 << 30, 1 << 31, u32::MAX as u64, 1 << 32, (1 << 24) + 1];
			let mut c = *g.pick(&counts);
			if c > max_count {
				c = max_count;
			}
			let enc = compact(c);
			let i = g.below(b.len() + 1);
			let end = (i + 1).min(b.len());
			b.splice(i..end, enc);
			("count", b)
		},
		6 => {
			// count off by one at the front
			if !b.is_empty() && b[0] % 4 == 0 {
				let n = (b[0] >> 2) as u64;
				let m = if g.chance(1, 2) { n + 1 } else { n.saturating_sub(1) };
				let enc = compact(m);
				b.splice(0..1, enc);
			}
			("count1", b)
		},
		7 => {
			if valid.len() >= 1 {
				let other = g.pick(valid).clone();
				let i = g.below(b.len() + 1);
				let j = g.below(other.len() + 1);
				b.truncate(i);
				b.extend_from_slice(&other[j..]);
			}
			("splice", b)
		},
		8 => {
			// non-canonical compact at the front: value re-encoded in a longer mode
			if !b.is_empty() && b[0] % 4 == 0 {
				let n = (b[0] >> 2) as u32;
				let enc: Vec<u8> = match g.below(3) {
					0 => (((n as u16) << 2) | 1).to_le_bytes().to_vec(),
					1 => ((n << 2) | 2).to_le_bytes().to_vec(),
					_ => {
						let mut v = vec![3u8];
						v.extend_from_slice(&n.to_le_bytes());
						v
					},
				};
				b.splice(0..1, enc);
			}
			("noncanon", b)
		},
		9 => {
			if !b.is_empty() {
				let i = g.below(b.len());
				b.remove(i);
			}
			("delete", b)
		},
		10 => {
			let i = g.below(b.len() + 1);
			b.insert(i, g.byte());
			("insert", b)
		},
		11 => {
			let n = g.below(7);
			("random", (0..n).map(|_| g.byte()).collect())
		},
		12 => {
			let n = g.below(24);
			("random", (0..n).map(|_| g.u64() as u8).collect())
		},
		_ => {
			if !b.is_empty() {
				let i = g.below(b.len());
				b[i] = g.u64() as u8;
			}
			("randbyte", b)
		},
	}
}
