//! Input back-ends and wrapper stacks.
//!
//! `RecIn` is a recording bottom input: because every wrapper in the crate forwards
//! `read`/`read_byte`/`descend_ref`/`ascend_ref`/`on_before_alloc_mem` to the input it wraps,
//! a recorder at the bottom of any stack observes the decoder's complete dialogue with its
//! input.  No hook inside the crate is needed.

use parity_scale_codec::{CountedInput, Decode, DecodeLimit, Error, Input, MemTrackingInput};
use serde_json::{json, Value};
use std::cell::RefCell;

pub const EV_RD: u8 = 0; // successful read of n bytes (consecutive ones coalesced)
pub const EV_RDF: u8 = 1; // failed read of n bytes
pub const EV_DE: u8 = 2; // descend_ref
pub const EV_AS: u8 = 3; // ascend_ref
pub const EV_AL: u8 = 4; // on_before_alloc_mem(n)

pub struct RecIn<'a> {
	pub data: &'a [u8],
	pub pos: usize,
	pub known: bool,
	pub ev: Vec<(u8, u64)>,
	pub ev_overflow: bool,
	// running aggregates (kept even when the event list is capped)
	pub depth: i64,
	pub dmax: i64,
	pub underflow: bool,
	pub announced: u128,
	/// live heap (from the allocator ledger) sampled at each event, if enabled
	pub track_heap: bool,
}

pub const EV_CAP: usize = 200_000;

impl<'a> RecIn<'a> {
	pub fn new(data: &'a [u8], known: bool) -> Self {
		RecIn {
			data,
			pos: 0,
			known,
			ev: Vec::new(),
			ev_overflow: false,
			depth: 0,
			dmax: 0,
			underflow: false,
			announced: 0,
			track_heap: false,
		}
	}
	fn push(&mut self, c: u8, n: u64) {
		if c == EV_RD {
			if let Some(last) = self.ev.last_mut() {
				if last.0 == EV_RD {
					last.1 += n;
					return;
				}
			}
		}
		if self.ev.len() >= EV_CAP {
			self.ev_overflow = true;
			return;
		}
		// the recorder's own bookkeeping must not show up in the allocator ledger
		let was = crate::ledger::pause_if_on();
		self.ev.push((c, n));
		if was {
			crate::ledger::resume();
		}
	}
	pub fn events_json(&self) -> Value {
		Value::Array(self.ev.iter().map(|(c, n)| json!([c, crate::reg::digits(*n as u128, 8)])).collect())
	}
}

impl<'a> Input for RecIn<'a> {
	fn remaining_len(&mut self) -> Result<Option<usize>, Error> {
		Ok(if self.known { Some(self.data.len() - self.pos) } else { None })
	}
	fn read(&mut self, into: &mut [u8]) -> Result<(), Error> {
		let n = into.len();
		if n > self.data.len() - self.pos {
			self.push(EV_RDF, n as u64);
			return Err("Not enough data to fill buffer".into());
		}
		into.copy_from_slice(&self.data[self.pos..self.pos + n]);
		self.pos += n;
		crate::ledger::POS.store(self.pos as u64, std::sync::atomic::Ordering::Relaxed);
		if n > 0 {
			self.push(EV_RD, n as u64);
		}
		Ok(())
	}
	fn descend_ref(&mut self) -> Result<(), Error> {
		self.depth += 1;
		crate::ledger::DEPTH.store(self.depth, std::sync::atomic::Ordering::Relaxed);
		if self.depth > self.dmax {
			self.dmax = self.depth;
		}
		self.push(EV_DE, 0);
		Ok(())
	}
	fn ascend_ref(&mut self) {
		self.depth -= 1;
		crate::ledger::DEPTH.store(self.depth, std::sync::atomic::Ordering::Relaxed);
		if self.depth < 0 {
			self.underflow = true;
		}
		self.push(EV_AS, 0);
	}
	fn on_before_alloc_mem(&mut self, size: usize) -> Result<(), Error> {
		self.announced += size as u128;
		self.push(EV_AL, size as u64);
		Ok(())
	}
}

/// Type erasure so that wrapper stacks can be built at run time without polymorphic recursion.
pub struct DynIn<'a>(pub &'a mut dyn Input);

impl<'a> Input for DynIn<'a> {
	fn remaining_len(&mut self) -> Result<Option<usize>, Error> {
		self.0.remaining_len()
	}
	fn read(&mut self, into: &mut [u8]) -> Result<(), Error> {
		self.0.read(into)
	}
	fn read_byte(&mut self) -> Result<u8, Error> {
		self.0.read_byte()
	}
	fn descend_ref(&mut self) -> Result<(), Error> {
		self.0.descend_ref()
	}
	fn ascend_ref(&mut self) {
		self.0.ascend_ref()
	}
	fn on_before_alloc_mem(&mut self, size: usize) -> Result<(), Error> {
		self.0.on_before_alloc_mem(size)
	}
}

/// A reader that hands out 1..=3 bytes per `read` call (pattern derived from a seed).
#[cfg(feature = "std")]
pub struct ShortReader<'a> {
	pub data: &'a [u8],
	pub pos: usize,
	pub state: u64,
}
#[cfg(feature = "std")]
impl<'a> std::io::Read for ShortReader<'a> {
	fn read(&mut self, buf: &mut [u8]) -> std::io::Result<usize> {
		self.state = self.state.wrapping_mul(6364136223846793005).wrapping_add(1442695040888963407);
		let want = 1 + ((self.state >> 33) % 3) as usize;
		let n = want.min(buf.len()).min(self.data.len() - self.pos);
		buf[..n].copy_from_slice(&self.data[self.pos..self.pos + n]);
		self.pos += n;
		Ok(n)
	}
}

/// One layer of a wrapper stack, listed from the bottom input upwards.
#[derive(Clone, Debug)]
pub enum W {
	Counted,
	Depth(u32),
	Mem(usize),
}

impl W {
	pub fn json(&self) -> Value {
		match self {
			W::Counted => json!(["c", crate::reg::digits(0, 8)]),
			W::Depth(l) => json!(["d", crate::reg::digits(*l as u128, 8)]),
			W::Mem(l) => json!(["m", crate::reg::digits(*l as u128, 8)]),
		}
	}
}

#[derive(Default, Clone)]
pub struct Obs {
	/// CountedInput::count() after the decode, one per Counted layer (bottom first)
	pub counts: Vec<u64>,
	/// MemTrackingInput::used_mem() after the decode, one per Mem layer
	pub used: Vec<usize>,
}

thread_local! {
	static CONT: RefCell<Option<Vec<W>>> = RefCell::new(None);
	static OBS: RefCell<Obs> = RefCell::new(Obs::default());
}

/// `Shim<T>::decode` continues building the rest of the stack *inside* the private
/// `DepthTrackingInput` that `decode_with_depth_limit` creates.
struct Shim<T>(T);
impl<T: Decode> Decode for Shim<T> {
	fn decode<I: Input>(input: &mut I) -> Result<Self, Error> {
		let rest = CONT.with(|c| c.borrow_mut().take()).expect("continuation set");
		run_stack_inner::<T>(&rest, input).map(Shim)
	}
}

fn run_stack_inner<T: Decode>(st: &[W], input: &mut dyn Input) -> Result<T, Error> {
	match st.first() {
		None => T::decode(&mut DynIn(input)),
		Some(W::Counted) => {
			let mut di = DynIn(input);
			let mut c = CountedInput::new(&mut di);
			let r = run_stack_inner::<T>(&st[1..], &mut c);
			let n = c.count();
			OBS.with(|o| o.borrow_mut().counts.push(n));
			r
		},
		Some(W::Mem(l)) => {
			let mut di = DynIn(input);
			let mut m = MemTrackingInput::new(&mut di, *l);
			let r = run_stack_inner::<T>(&st[1..], &mut m);
			let u = m.used_mem();
			OBS.with(|o| o.borrow_mut().used.push(u));
			r
		},
		Some(W::Depth(l)) => {
			CONT.with(|c| *c.borrow_mut() = Some(st[1..].to_vec()));
			let mut di = DynIn(input);
			<Shim<T> as DecodeLimit>::decode_with_depth_limit(*l, &mut di).map(|s| s.0)
		},
	}
}

/// Decode `T` through the wrapper stack `st` (bottom layer first) on top of `input`.
/// Counts and used memory are reported innermost layer last.
pub fn run_stack<T: Decode>(st: &[W], input: &mut dyn Input) -> (Result<T, Error>, Obs) {
	OBS.with(|o| *o.borrow_mut() = Obs::default());
	let r = run_stack_inner::<T>(st, input);
	let mut obs = OBS.with(|o| o.borrow().clone());
	// layers were pushed on the way out (top first): report bottom first
	obs.counts.reverse();
	obs.used.reverse();
	(r, obs)
}
