//! The type universe: for every Rust type under test its descriptor (the vocabulary shared with
//! the TLA+ specification), a boundary-biased value generator and the projection of a value to
//! its abstract value.  Projections never go through the codec: digits are produced by shifting,
//! strings by `as_bytes`, floats by `to_bits`, containers by iteration.

use crate::rng::G;
use core::marker::PhantomData;
use core::mem::size_of;
use core::num::*;
use core::ops::{Range, RangeInclusive};
use core::time::Duration;
use parity_scale_codec::{Compact, OptionBool};
use serde_json::{json, Map, Value};
use std::borrow::Cow;
use std::collections::{BTreeMap, BTreeSet, BinaryHeap, LinkedList, VecDeque};
use std::rc::Rc;
use std::sync::Arc;

pub type Env = Map<String, Value>;

pub trait Reg: Sized {
	/// every value has the empty encoding
	const ZLEN: bool = false;
	fn name() -> String;
	fn descr() -> Value;
	/// definitions of named (recursive) types reachable from this type
	fn env(_e: &mut Env) {}
	fn gen(g: &mut G) -> Self;
	/// a value whose outermost collection has exactly `n` elements, if this type has one
	fn gen_len(_g: &mut G, _n: usize) -> Option<Self> {
		None
	}
	fn abs(&self) -> Value;
}

pub fn env_of<T: Reg>() -> Value {
	let mut e = Env::new();
	e.insert("_".into(), json!({"k":"unit"}));
	T::env(&mut e);
	Value::Object(e)
}

pub fn digits(v: u128, w: usize) -> Value {
	Value::Array((0..w).map(|k| json!(((v >> (8 * k)) & 0xff) as u8)).collect())
}

pub fn bytes_json(b: &[u8]) -> Value {
	Value::Array(b.iter().map(|x| json!(*x)).collect())
}

macro_rules! reg_uint {
	($($t:ty, $w:expr, $s:expr, $b:expr);*) => {$(
		impl Reg for $t {
			fn name() -> String { stringify!($t).into() }
			fn descr() -> Value { json!({"k":"int","w":$w,"s":$s,"b":$b,"sz":size_of::<$t>()}) }
			fn gen(g: &mut G) -> Self { g.uint($w * 8) as $t }
			fn abs(&self) -> Value { digits(*self as u128, $w) }
		}
	)*}
}
reg_uint!(u8,1,false,true; u16,2,false,true; u32,4,false,true; u64,8,false,true; u128,16,false,true;
	i8,1,true,true; i16,2,true,true; i32,4,true,true; i64,8,true,true; i128,16,true,true);

impl Reg for f32 {
	fn name() -> String { "f32".into() }
	fn descr() -> Value { json!({"k":"int","w":4,"s":false,"b":true,"f":true,"sz":4}) }
	fn gen(g: &mut G) -> Self {
		match g.below(6) {
			0 => *g.pick(&[0.0f32, -0.0, 1.0, f32::MAX, f32::MIN_POSITIVE, f32::INFINITY, f32::NEG_INFINITY, f32::NAN]),
			_ => f32::from_bits(g.uint(32) as u32),
		}
	}
	fn abs(&self) -> Value { digits(self.to_bits() as u128, 4) }
}
impl Reg for f64 {
	fn name() -> String { "f64".into() }
	fn descr() -> Value { json!({"k":"int","w":8,"s":false,"b":true,"f":true,"sz":8}) }
	fn gen(g: &mut G) -> Self {
		match g.below(6) {
			0 => *g.pick(&[0.0f64, -0.0, 1.0, f64::MAX, f64::MIN_POSITIVE, f64::INFINITY, f64::NEG_INFINITY, f64::NAN]),
			_ => f64::from_bits(g.uint(64) as u64),
		}
	}
	fn abs(&self) -> Value { digits(self.to_bits() as u128, 8) }
}

impl Reg for bool {
	fn name() -> String { "bool".into() }
	fn descr() -> Value { json!({"k":"bool","sz":1}) }
	fn gen(g: &mut G) -> Self { g.chance(1, 2) }
	fn abs(&self) -> Value { json!(*self) }
}
impl Reg for () {
	const ZLEN: bool = true;
	fn name() -> String { "()".into() }
	fn descr() -> Value { json!({"k":"unit","sz":0}) }
	fn gen(_g: &mut G) -> Self {}
	fn abs(&self) -> Value { json!([]) }
}
impl<T: 'static> Reg for PhantomData<T> {
	const ZLEN: bool = true;
	fn name() -> String { "PhantomData".into() }
	fn descr() -> Value { json!({"k":"unit","sz":0}) }
	fn gen(_g: &mut G) -> Self { PhantomData }
	fn abs(&self) -> Value { json!([]) }
}
impl Reg for Compact<()> {
	const ZLEN: bool = true;
	fn name() -> String { "Compact<()>".into() }
	fn descr() -> Value { json!({"k":"unit","sz":0}) }
	fn gen(_g: &mut G) -> Self { Compact(()) }
	fn abs(&self) -> Value { json!([]) }
}
impl Reg for OptionBool {
	fn name() -> String { "OptionBool".into() }
	fn descr() -> Value { json!({"k":"optbool","sz":size_of::<OptionBool>()}) }
	fn gen(g: &mut G) -> Self { OptionBool(match g.below(3) { 0 => None, 1 => Some(true), _ => Some(false) }) }
	fn abs(&self) -> Value { match self.0 { None => json!([]), Some(b) => json!([b]) } }
}
impl Reg for Duration {
	fn name() -> String { "Duration".into() }
	fn descr() -> Value { json!({"k":"duration","sz":size_of::<Duration>()}) }
	fn gen(g: &mut G) -> Self {
		let n = match g.below(4) { 0 => 0, 1 => 999_999_999, _ => (g.uint(32) % 1_000_000_000) as u32 };
		Duration::new(g.uint(64) as u64, n)
	}
	fn abs(&self) -> Value { json!([digits(self.as_secs() as u128, 8), digits(self.subsec_nanos() as u128, 4)]) }
}

macro_rules! reg_compact {
	($($t:ty, $w:expr);*) => {$(
		impl Reg for Compact<$t> {
			fn name() -> String { format!("Compact<{}>", stringify!($t)) }
			fn descr() -> Value { json!({"k":"compact","w":$w,"sz":size_of::<$t>()}) }
			fn gen(g: &mut G) -> Self { Compact(g.uint($w * 8) as $t) }
			fn abs(&self) -> Value { digits(self.0 as u128, $w) }
		}
	)*}
}
reg_compact!(u8,1; u16,2; u32,4; u64,8; u128,16);

macro_rules! reg_nonzero {
	($($t:ty, $p:ty, $w:expr, $s:expr);*) => {$(
		impl Reg for $t {
			fn name() -> String { stringify!($t).into() }
			fn descr() -> Value { json!({"k":"nonzero","w":$w,"s":$s,"sz":size_of::<$t>()}) }
			fn gen(g: &mut G) -> Self {
				let v = g.uint($w * 8) as $p;
				<$t>::new(v).unwrap_or(<$t>::new(1).unwrap())
			}
			fn abs(&self) -> Value { digits(self.get() as u128, $w) }
		}
	)*}
}
reg_nonzero!(NonZeroU8,u8,1,false; NonZeroU16,u16,2,false; NonZeroU32,u32,4,false; NonZeroU64,u64,8,false;
	NonZeroU128,u128,16,false; NonZeroI8,i8,1,true; NonZeroI16,i16,2,true; NonZeroI32,i32,4,true;
	NonZeroI64,i64,8,true; NonZeroI128,i128,16,true);

impl<T: Reg> Reg for Option<T> {
	fn name() -> String { format!("Option<{}>", T::name()) }
	fn descr() -> Value { json!({"k":"option","t":T::descr(),"sz":size_of::<Self>()}) }
	fn env(e: &mut Env) { T::env(e) }
	fn gen(g: &mut G) -> Self { if g.depth == 0 || g.chance(1, 3) { None } else { Some(g.nested(T::gen)) } }
	fn abs(&self) -> Value { match self { None => json!([]), Some(x) => json!([x.abs()]) } }
}
impl<T: Reg, E: Reg> Reg for Result<T, E> {
	fn name() -> String { format!("Result<{},{}>", T::name(), E::name()) }
	fn descr() -> Value { json!({"k":"result","t":T::descr(),"e":E::descr(),"sz":size_of::<Self>()}) }
	fn env(e: &mut Env) { T::env(e); E::env(e) }
	fn gen(g: &mut G) -> Self { if g.chance(1, 2) { Ok(g.nested(T::gen)) } else { Err(g.nested(E::gen)) } }
	fn abs(&self) -> Value { match self { Ok(x) => json!({"ok":x.abs()}), Err(x) => json!({"err":x.abs()}) } }
}

fn seq_abs<'a, T: Reg + 'a>(n: usize, it: impl Iterator<Item = &'a T>) -> Value {
	if T::ZLEN {
		json!({"rep": digits(n as u128, 4)})
	} else {
		Value::Array(it.map(|x| x.abs()).collect())
	}
}
fn gen_n<T: Reg>(g: &mut G, n: usize) -> Vec<T> {
	g.nested(|g| (0..n).map(|_| T::gen(g)).collect())
}
fn gen_seq<T: Reg>(g: &mut G) -> Vec<T> {
	let n = if g.depth == 0 { 0 } else { g.len() };
	gen_n(g, n)
}

macro_rules! reg_seq {
	($($c:ident, $tag:expr, [$($bound:tt)*]);*) => {$(
		impl<T: Reg $($bound)*> Reg for $c<T> {
			fn name() -> String { format!("{}<{}>", stringify!($c), T::name()) }
			fn descr() -> Value { json!({"k":"seq","t":T::descr(),"c":$tag,"sz":size_of::<Self>()}) }
			fn env(e: &mut Env) { T::env(e) }
			fn gen(g: &mut G) -> Self { gen_seq::<T>(g).into_iter().collect() }
			fn gen_len(g: &mut G, n: usize) -> Option<Self> { Some(gen_n::<T>(g, n).into_iter().collect()) }
			fn abs(&self) -> Value { seq_abs(self.len(), self.iter()) }
		}
	)*}
}
reg_seq!(Vec, "vec", []; LinkedList, "list", []);

impl<T: Reg> Reg for VecDeque<T> {
	fn name() -> String { format!("VecDeque<{}>", T::name()) }
	fn descr() -> Value { json!({"k":"seq","t":T::descr(),"c":"deque","sz":size_of::<Self>()}) }
	fn env(e: &mut Env) { T::env(e) }
	fn gen(g: &mut G) -> Self {
		// build through a history so that the ring buffer is usually wrapped
		let items = gen_seq::<T>(g);
		let mut d = VecDeque::with_capacity(items.len().max(1));
		let cut = g.below(items.len() + 1);
		let mut front: Vec<T> = Vec::new();
		for (i, x) in items.into_iter().enumerate() {
			if i < cut { front.push(x) } else { d.push_back(x) }
		}
		for x in front.into_iter().rev() { d.push_front(x) }
		d
	}
	fn gen_len(g: &mut G, n: usize) -> Option<Self> {
		let items = gen_n::<T>(g, n);
		let mut d = VecDeque::with_capacity(n.max(1));
		let cut = g.below(n + 1);
		let mut front: Vec<T> = Vec::new();
		for (i, x) in items.into_iter().enumerate() {
			if i < cut { front.push(x) } else { d.push_back(x) }
		}
		for x in front.into_iter().rev() { d.push_front(x) }
		Some(d)
	}
	fn abs(&self) -> Value { seq_abs(self.len(), self.iter()) }
}

impl<T: Reg + Ord + Clone> Reg for BinaryHeap<T> {
	fn name() -> String { format!("BinaryHeap<{}>", T::name()) }
	fn descr() -> Value { json!({"k":"seq","t":T::descr(),"c":"heap","sz":size_of::<Self>()}) }
	fn env(e: &mut Env) { T::env(e) }
	fn gen(g: &mut G) -> Self { gen_seq::<T>(g).into_iter().collect() }
	fn gen_len(g: &mut G, n: usize) -> Option<Self> { Some(gen_n::<T>(g, n).into_iter().collect()) }
	fn abs(&self) -> Value {
		let v = self.clone().into_sorted_vec();
		seq_abs(v.len(), v.iter())
	}
}
impl<T: Reg + Ord> Reg for BTreeSet<T> {
	fn name() -> String { format!("BTreeSet<{}>", T::name()) }
	fn descr() -> Value { json!({"k":"set","t":T::descr(),"esz":size_of::<T>(),"sz":size_of::<Self>()}) }
	fn env(e: &mut Env) { T::env(e) }
	fn gen(g: &mut G) -> Self { gen_seq::<T>(g).into_iter().collect() }
	fn gen_len(g: &mut G, n: usize) -> Option<Self> {
		let mut s = BTreeSet::new();
		let mut tries = 0;
		while s.len() < n && tries < 20 * n + 100 {
			s.insert(g.nested(T::gen));
			tries += 1;
		}
		Some(s)
	}
	fn abs(&self) -> Value { Value::Array(self.iter().map(|x| x.abs()).collect()) }
}
impl<K: Reg + Ord, V: Reg> Reg for BTreeMap<K, V> {
	fn name() -> String { format!("BTreeMap<{},{}>", K::name(), V::name()) }
	fn descr() -> Value {
		json!({"k":"map","key":K::descr(),"val":V::descr(),"esz":size_of::<(K, V)>(),"sz":size_of::<Self>()})
	}
	fn env(e: &mut Env) { K::env(e); V::env(e) }
	fn gen(g: &mut G) -> Self {
		let n = if g.depth == 0 { 0 } else { g.len() };
		g.nested(|g| (0..n).map(|_| (K::gen(g), V::gen(g))).collect())
	}
	fn gen_len(g: &mut G, n: usize) -> Option<Self> {
		let mut s = BTreeMap::new();
		let mut tries = 0;
		while s.len() < n && tries < 20 * n + 100 {
			let (k, v) = g.nested(|g| (K::gen(g), V::gen(g)));
			s.insert(k, v);
			tries += 1;
		}
		Some(s)
	}
	fn abs(&self) -> Value { Value::Array(self.iter().map(|(k, v)| json!([k.abs(), v.abs()])).collect()) }
}

fn gen_string(g: &mut G, n: usize) -> String {
	const CH: [char; 12] = ['a', 'Z', '0', ' ', '\u{7f}', '\u{80}', '\u{7ff}', '\u{800}', '\u{d7ff}', '\u{e000}', '\u{ffff}', '\u{10ffff}'];
	let mut s = String::new();
	for _ in 0..n {
		if g.chance(1, 2) {
			s.push(*g.pick(&CH));
		} else {
			s.push(char::from_u32((g.u64() % 0x11_0000) as u32).unwrap_or('x'));
		}
	}
	s
}
impl Reg for String {
	fn name() -> String { "String".into() }
	fn descr() -> Value { json!({"k":"str","sz":size_of::<String>()}) }
	fn gen(g: &mut G) -> Self { let n = g.len(); gen_string(g, n) }
	fn gen_len(g: &mut G, n: usize) -> Option<Self> {
		// exactly n bytes; a multi-byte character straddles every multiple of 16384 (the decoder's read window)
		let src = gen_string(g, n / 3);
		let mut s = String::with_capacity(n + 4);
		let mut it = src.chars();
		let straddlers = ['\u{e9}', '\u{20ac}', '\u{1f600}'];
		while s.len() < n {
			let next = (s.len() / 16384 + 1) * 16384;
			let room = next - s.len();
			if room <= 3 && next + 4 <= n {
				if room == 1 { s.push(straddlers[(next / 16384) % 3]); } else { s.push('a'); }
				continue;
			}
			match it.next() {
				Some(c) if s.len() + c.len_utf8() < next || next + 4 > n => s.push(c),
				_ => s.push('a'),
			}
		}
		while s.len() > n { s.pop(); }
		while s.len() < n { s.push('b') }
		Some(s)
	}
	fn abs(&self) -> Value { bytes_json(self.as_bytes()) }
}

impl<T: Reg, const N: usize> Reg for [T; N] {
	const ZLEN: bool = N == 0 || T::ZLEN;
	fn name() -> String { format!("[{};{}]", T::name(), N) }
	fn descr() -> Value { json!({"k":"array","t":T::descr(),"n":N,"sz":size_of::<Self>()}) }
	fn env(e: &mut Env) { T::env(e) }
	fn gen(g: &mut G) -> Self { g.nested(|g| core::array::from_fn(|_| T::gen(g))) }
	fn abs(&self) -> Value { Value::Array(self.iter().map(|x| x.abs()).collect()) }
}

pub trait FirstMember { type First: Reg; fn first_mut(&mut self) -> &mut Self::First; }
fn first_gen_len<T: FirstMember, G2>(t: &mut T, g: &mut G, n: usize) -> bool where G2: Sized {
	match <T::First as Reg>::gen_len(g, n) { Some(v) => { *t.first_mut() = v; true }, None => false }
}
macro_rules! first_member {
	($(($a:ident $(, $t:ident)*))*) => {$(
		impl<$a: Reg $(, $t: Reg)*> FirstMember for ($a, $($t,)*) { type First = $a; fn first_mut(&mut self) -> &mut $a { &mut self.0 } }
	)*}
}
first_member!((A) (A, B) (A, B, C) (A, B, C, D) (A, B, C, D, E, F, H, I, J, K, L, M, N, O, P, Q, R, S));
macro_rules! reg_tuple {
	($(($($t:ident $i:tt),+))*) => {$(
		impl<$($t: Reg),+> Reg for ($($t,)+) {
			const ZLEN: bool = true $(&& $t::ZLEN)+;
			fn name() -> String { let v: Vec<String> = vec![$($t::name()),+]; format!("({})", v.join(",")) }
			fn descr() -> Value { json!({"k":"tuple","ts":[$($t::descr()),+],"sz":size_of::<Self>()}) }
			fn env(e: &mut Env) { $($t::env(e);)+ }
			fn gen(g: &mut G) -> Self { g.nested(|g| ($($t::gen(g),)+)) }
			fn gen_len(g: &mut G, n: usize) -> Option<Self> {
				// the first member gets the requested length
				let mut t = Self::gen(g);
				match first_gen_len::<Self, ()>(&mut t, g, n) { true => Some(t), false => None }
			}
			fn abs(&self) -> Value { json!([$(self.$i.abs()),+]) }
		}
	)*}
}
reg_tuple!((A 0) (A 0, B 1) (A 0, B 1, C 2) (A 0, B 1, C 2, D 3)
	(A 0, B 1, C 2, D 3, E 4, F 5, H 6, I 7, J 8, K 9, L 10, M 11, N 12, O 13, P 14, Q 15, R 16, S 17));

impl<T: Reg> Reg for Range<T> {
	fn name() -> String { format!("Range<{}>", T::name()) }
	fn descr() -> Value { json!({"k":"tuple","ts":[T::descr(), T::descr()],"sz":size_of::<Self>()}) }
	fn env(e: &mut Env) { T::env(e) }
	fn gen(g: &mut G) -> Self { T::gen(g)..T::gen(g) }
	fn abs(&self) -> Value { json!([self.start.abs(), self.end.abs()]) }
}
impl<T: Reg> Reg for RangeInclusive<T> {
	fn name() -> String { format!("RangeInclusive<{}>", T::name()) }
	fn descr() -> Value { json!({"k":"tuple","ts":[T::descr(), T::descr()],"sz":size_of::<Self>()}) }
	fn env(e: &mut Env) { T::env(e) }
	fn gen(g: &mut G) -> Self { T::gen(g)..=T::gen(g) }
	fn abs(&self) -> Value { json!([self.start().abs(), self.end().abs()]) }
}

macro_rules! reg_ptr {
	($($c:ident, $tag:expr);*) => {$(
		impl<T: Reg> Reg for $c<T> {
			const ZLEN: bool = T::ZLEN;
			fn name() -> String { format!("{}<{}>", stringify!($c), T::name()) }
			fn descr() -> Value { json!({"k":"ptr","t":T::descr(),"p":$tag,"sz":size_of::<Self>(),"tsz":size_of::<T>()}) }
			fn env(e: &mut Env) { T::env(e) }
			fn gen(g: &mut G) -> Self { $c::new(T::gen(g)) }
			fn abs(&self) -> Value { (**self).abs() }
		}
	)*}
}
reg_ptr!(Box, "box"; Rc, "rc"; Arc, "arc");

impl<T: Reg + Clone> Reg for Cow<'static, T> {
	const ZLEN: bool = T::ZLEN;
	fn name() -> String { format!("Cow<{}>", T::name()) }
	fn descr() -> Value { json!({"k":"ptr","t":T::descr(),"p":"cow","sz":size_of::<Self>(),"tsz":size_of::<T>()}) }
	fn env(e: &mut Env) { T::env(e) }
	fn gen(g: &mut G) -> Self { Cow::Owned(T::gen(g)) }
	fn abs(&self) -> Value { (**self).abs() }
}

#[cfg(feature = "bytes")]
impl Reg for bytes::Bytes {
	fn name() -> String { "Bytes".into() }
	fn descr() -> Value { json!({"k":"seq","t":u8::descr(),"c":"bytes","sz":size_of::<Self>()}) }
	fn gen(g: &mut G) -> Self { bytes::Bytes::from(Vec::<u8>::gen(g)) }
	fn gen_len(g: &mut G, n: usize) -> Option<Self> { Vec::<u8>::gen_len(g, n).map(bytes::Bytes::from) }
	fn abs(&self) -> Value { Value::Array(self.iter().map(|x| x.abs()).collect()) }
}

#[cfg(feature = "bit-vec")]
mod bits {
	use super::*;
	use bitvec::{order::{BitOrder, Lsb0, Msb0}, store::BitStore, vec::BitVec, boxed::BitBox};
	pub trait OrdTag { const TAG: &'static str; }
	impl OrdTag for Lsb0 { const TAG: &'static str = "lsb0"; }
	impl OrdTag for Msb0 { const TAG: &'static str = "msb0"; }
	impl<T: BitStore<Unalias = T> + Reg, O: BitOrder + OrdTag> Reg for BitVec<T, O> {
		fn name() -> String { format!("BitVec<{},{}>", T::name(), O::TAG) }
		fn descr() -> Value { json!({"k":"bits","w":size_of::<T>(),"o":O::TAG,"sz":size_of::<Self>()}) }
		fn gen(g: &mut G) -> Self {
			let w = size_of::<T>() * 8;
			let n = match g.below(6) { 0 => 0, 1 => w, 2 => w + 1, 3 => 2 * w - 1, _ => g.below(3 * w + 2) };
			Self::gen_len(g, n).unwrap()
		}
		fn gen_len(g: &mut G, n: usize) -> Option<Self> {
			// construction history matters: push more than needed and cut back (stale bits stay in
			// the padding of the last storage element), or drop a prefix (non-zero head offset)
			let extra = if g.chance(1, 2) { g.below(2 * size_of::<T>() * 8 + 1) } else { 0 };
			let lead = if g.chance(1, 3) { g.below(size_of::<T>() * 8) } else { 0 };
			let mut bv: BitVec<T, O> = BitVec::new();
			let mut word = 0u64;
			for i in 0..(lead + n + extra) {
				if i % 64 == 0 { word = if g.chance(1, 3) { u64::MAX } else { g.u64() }; }
				bv.push((word >> (i % 64)) & 1 == 1);
			}
			bv.truncate(lead + n);
			if lead > 0 {
				// either shift the bits down (head offset 0) or keep the sub-slice's head offset inside its first element
				if g.chance(1, 2) { bv.drain(..lead); } else { bv = BitVec::from_bitslice(&bv[lead..]); }
			}
			Some(bv)
		}
		fn abs(&self) -> Value { Value::Array(self.iter().map(|b| json!(if *b { 1 } else { 0 })).collect()) }
	}
	impl<T: BitStore<Unalias = T> + Reg, O: BitOrder + OrdTag> Reg for BitBox<T, O> {
		fn name() -> String { format!("BitBox<{},{}>", T::name(), O::TAG) }
		fn descr() -> Value { json!({"k":"bits","w":size_of::<T>(),"o":O::TAG,"sz":size_of::<Self>()}) }
		fn gen(g: &mut G) -> Self {
			let v = BitVec::<T, O>::gen(g);
			// a box made straight from a sub-slice keeps that slice's head offset
			if g.chance(1, 2) && v.len() > 3 { let k = 1 + g.below(3); BitBox::from_bitslice(&v[k..]) } else { v.into_boxed_bitslice() }
		}
		fn gen_len(g: &mut G, n: usize) -> Option<Self> { BitVec::<T, O>::gen_len(g, n).map(|b| b.into_boxed_bitslice()) }
		fn abs(&self) -> Value { Value::Array(self.iter().map(|b| json!(if *b { 1 } else { 0 })).collect()) }
	}
}

#[cfg(feature = "generic-array")]
mod garr {
	use super::*;
	use generic_array::{sequence::GenericSequence, ArrayLength, GenericArray};
	impl<T: Reg, L: ArrayLength<T> + 'static> Reg for GenericArray<T, L> {
		fn name() -> String { format!("GenericArray<{},U{}>", T::name(), L::to_usize()) }
		fn descr() -> Value { json!({"k":"array","t":T::descr(),"n":L::to_usize(),"sz":size_of::<Self>(),"ga":true}) }
		fn gen(g: &mut G) -> Self { g.nested(|g| GenericArray::generate(|_| T::gen(g))) }
		fn abs(&self) -> Value { Value::Array(self.iter().map(|x| x.abs()).collect()) }
	}
}
