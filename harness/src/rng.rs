//! Deterministic generator state shared by all value generators (seeded by VERIF_SEED).

pub struct G {
	s: u64,
	/// soft bound on collection lengths generated at the current nesting level
	pub max_len: usize,
	/// remaining nesting budget
	pub depth: u32,
}

impl G {
	pub fn new(seed: u64) -> Self {
		G { s: seed.wrapping_mul(0x9E37_79B9_7F4A_7C15) ^ 0xD1B5_4A32_D192_ED03, max_len: 6, depth: 4 }
	}
	pub fn u64(&mut self) -> u64 {
		// splitmix64
		self.s = self.s.wrapping_add(0x9E37_79B9_7F4A_7C15);
		let mut z = self.s;
		z = (z ^ (z >> 30)).wrapping_mul(0xBF58_476D_1CE4_E5B9);
		z = (z ^ (z >> 27)).wrapping_mul(0x94D0_49BB_1331_11EB);
		z ^ (z >> 31)
	}
	pub fn u128(&mut self) -> u128 {
		((self.u64() as u128) << 64) | self.u64() as u128
	}
	pub fn below(&mut self, n: usize) -> usize {
		if n == 0 {
			0
		} else {
			(self.u64() % n as u64) as usize
		}
	}
	pub fn chance(&mut self, num: usize, den: usize) -> bool {
		self.below(den) < num
	}
	pub fn pick<'a, T>(&mut self, xs: &'a [T]) -> &'a T {
		&xs[self.below(xs.len())]
	}
	pub fn byte(&mut self) -> u8 {
		const B: [u8; 16] = [0, 1, 2, 3, 4, 0x3f, 0x40, 0x7f, 0x80, 0xfc, 0xfd, 0xfe, 0xff, 0x41, 0xc2, 0xe0];
		if self.chance(1, 2) {
			*self.pick(&B)
		} else {
			self.u64() as u8
		}
	}
	/// Boundary-biased unsigned value of `bits` width: compact class edges, byte-lane edges,
	/// powers of two +-1, sparse and dense random patterns.
	pub fn uint(&mut self, bits: u32) -> u128 {
		let mask: u128 = if bits == 128 { u128::MAX } else { (1u128 << bits) - 1 };
		let r = match self.below(10) {
			0 => {
				const E: [u128; 14] = [0, 1, 2, 62, 63, 64, 65, 255, 256, 16383, 16384, 16385, 65535, 65536];
				*self.pick(&E)
			},
			1 => {
				let k = self.below(bits as usize + 1) as u32;
				let p = if k >= 128 { 0 } else { 1u128 << k };
				match self.below(3) {
					0 => p.wrapping_sub(1),
					1 => p,
					_ => p.wrapping_add(1),
				}
			},
			2 => {
				// class boundaries of the compact format and of the byte lanes
				let k = *self.pick(&[6u32, 14, 30, 32, 40, 48, 56, 64, 72, 96, 120, 127]);
				let p = 1u128 << k;
				let d = self.below(9) as u128;
				if self.chance(1, 2) {
					p.wrapping_add(d).wrapping_sub(4)
				} else {
					(p << 2).wrapping_sub(4).wrapping_add(d)
				}
			},
			3 => mask,
			4 => mask - self.below(4) as u128,
			5 => {
				// at most two non-zero byte lanes
				let a = (self.byte() as u128) << (8 * self.below(16));
				let b = (self.byte() as u128) << (8 * self.below(16));
				a | b
			},
			6 => self.u128() >> self.below(128),
			_ => self.u128(),
		};
		r & mask
	}
	/// Collection length, biased to 0, 1, 2 and (rarely) the compact class edge 63/64.
	pub fn len(&mut self) -> usize {
		let m = self.max_len;
		match self.below(12) {
			0 | 1 => 0,
			2 | 3 => 1.min(m),
			4 => 2.min(m),
			5 if m >= 4 => *self.pick(&[63usize, 64, 65]),
			_ => self.below(m + 1),
		}
	}
	/// Run `f` one nesting level deeper with smaller collections.
	pub fn nested<T>(&mut self, f: impl FnOnce(&mut G) -> T) -> T {
		let (ml, d) = (self.max_len, self.depth);
		// inner collections are small, but now and then long enough to outgrow a buffer sized by a hint
		self.max_len = if ml > 3 { if self.depth >= 3 && self.chance(1, 10) { 70 } else { 3 } } else { ml };
		self.depth = d.saturating_sub(1);
		let r = f(self);
		self.max_len = ml;
		self.depth = d;
		r
	}
}
