//! User-defined types of the universe: element-wise twins of the primitives (same wire format,
//! no bulk fast path), hand-written derived structs/enums and recursive types.

use crate::reg::{digits, Env, Reg};
use crate::rng::G;
use core::mem::size_of;
use parity_scale_codec::{Compact, Decode, DecodeWithMemTracking, Encode, Error, Input, Output};
use serde_json::{json, Value};
use std::collections::{BTreeMap, LinkedList};

// ---------------------------------------------------------------- twins

macro_rules! twin {
	($($n:ident, $t:ty);*) => {$(
		#[derive(Clone, Copy, Debug, PartialEq, PartialOrd, Default)]
		pub struct $n(pub $t);
		impl Encode for $n {
			fn size_hint(&self) -> usize { size_of::<$t>() }
			fn encode_to<W: Output + ?Sized>(&self, dest: &mut W) { self.0.encode_to(dest) }
		}
		impl Decode for $n {
			fn decode<I: Input>(input: &mut I) -> Result<Self, Error> { <$t>::decode(input).map($n) }
		}
		impl DecodeWithMemTracking for $n {}
		impl Reg for $n {
			fn name() -> String { format!("Tw<{}>", stringify!($t)) }
			fn descr() -> Value { let mut d = <$t>::descr(); d["b"] = json!(false); d }
			fn gen(g: &mut G) -> Self { $n(<$t>::gen(g)) }
			fn abs(&self) -> Value { Reg::abs(&self.0) }
		}
	)*}
}
twin!(TwU8,u8; TwI8,i8; TwU16,u16; TwI16,i16; TwU32,u32; TwI32,i32; TwU64,u64; TwI64,i64;
	TwU128,u128; TwI128,i128; TwF32,f32; TwF64,f64);

/// hand-written codec that declares its fixed encoded size (5 bytes on the wire, 8 in memory): arrays of it must
/// report the wire size, not the memory size
#[derive(Clone, Copy, Debug, PartialEq, Default)]
pub struct Hdr { pub kind: u8, pub value: u32 }
impl Encode for Hdr {
	fn size_hint(&self) -> usize { 5 }
	fn encode_to<W: Output + ?Sized>(&self, dest: &mut W) { self.kind.encode_to(dest); self.value.encode_to(dest) }
}
impl Decode for Hdr {
	fn decode<I: Input>(input: &mut I) -> Result<Self, Error> { Ok(Hdr { kind: u8::decode(input)?, value: u32::decode(input)? }) }
	fn encoded_fixed_size() -> Option<usize> { Some(5) }
}
impl DecodeWithMemTracking for Hdr {}
impl Reg for Hdr {
	fn name() -> String { "Hdr".into() }
	fn descr() -> Value { json!({"k":"tuple","ts":[u8::descr(), u32::descr()],"sz":size_of::<Self>(),"fx":5}) }
	fn gen(g: &mut G) -> Self { Hdr { kind: u8::gen(g), value: u32::gen(g) } }
	fn abs(&self) -> Value { json!([Reg::abs(&self.kind), Reg::abs(&self.value)]) }
}

// ---------------------------------------------------------------- derived types

#[cfg(feature = "derive")]
pub use derived::*;

#[cfg(feature = "derive")]
mod derived {
	use super::*;
	use parity_scale_codec::CompactAs;
	#[cfg(feature = "max-encoded-len")]
	use parity_scale_codec::MaxEncodedLen;

	fn tuple_descr(ts: Vec<Value>, sz: usize) -> Value { json!({"k":"tuple","ts":ts,"sz":sz}) }

	#[derive(Encode, Decode, DecodeWithMemTracking, Debug, PartialEq, Clone)]
	pub struct SNamed { pub a: u8, pub b: u32, pub c: Vec<u8> }
	impl Reg for SNamed {
		fn name() -> String { "SNamed".into() }
		fn descr() -> Value { tuple_descr(vec![u8::descr(), u32::descr(), Vec::<u8>::descr()], size_of::<Self>()) }
		fn gen(g: &mut G) -> Self { g.nested(|g| SNamed { a: u8::gen(g), b: u32::gen(g), c: Vec::gen(g) }) }
		fn abs(&self) -> Value { json!([self.a.abs(), self.b.abs(), self.c.abs()]) }
	}

	#[derive(Encode, Decode, DecodeWithMemTracking, Debug, PartialEq, Clone, Copy)]
	#[cfg_attr(feature = "max-encoded-len", derive(MaxEncodedLen))]
	pub struct STuple(pub u16, pub Option<u8>);
	impl Reg for STuple {
		fn name() -> String { "STuple".into() }
		fn descr() -> Value { tuple_descr(vec![u16::descr(), Option::<u8>::descr()], size_of::<Self>()) }
		fn gen(g: &mut G) -> Self { g.nested(|g| STuple(u16::gen(g), Option::gen(g))) }
		fn abs(&self) -> Value { json!([self.0.abs(), self.1.abs()]) }
	}

	#[derive(Encode, Decode, DecodeWithMemTracking, Debug, PartialEq, Clone, Copy)]
	#[cfg_attr(feature = "max-encoded-len", derive(MaxEncodedLen))]
	pub struct SUnit;
	impl Reg for SUnit {
		const ZLEN: bool = true;
		fn name() -> String { "SUnit".into() }
		fn descr() -> Value { json!({"k":"unit","sz":0}) }
		fn gen(_g: &mut G) -> Self { SUnit }
		fn abs(&self) -> Value { json!([]) }
	}

	#[derive(Encode, Decode, DecodeWithMemTracking, Debug, PartialEq, Clone, Copy)]
	#[cfg_attr(feature = "max-encoded-len", derive(MaxEncodedLen))]
	pub struct SCompact { #[codec(compact)] pub a: u32, #[codec(compact)] pub b: u64, pub c: u8 }
	impl Reg for SCompact {
		fn name() -> String { "SCompact".into() }
		fn descr() -> Value {
			tuple_descr(vec![Compact::<u32>::descr(), Compact::<u64>::descr(), u8::descr()], size_of::<Self>())
		}
		fn gen(g: &mut G) -> Self { SCompact { a: u32::gen(g), b: u64::gen(g), c: u8::gen(g) } }
		fn abs(&self) -> Value { json!([digits(self.a as u128, 4), digits(self.b as u128, 8), self.c.abs()]) }
	}

	#[derive(Encode, Decode, DecodeWithMemTracking, Debug, PartialEq, Clone, Copy)]
	#[cfg_attr(feature = "max-encoded-len", derive(MaxEncodedLen))]
	pub struct SSkip { pub a: u8, #[codec(skip)] pub s: u32, pub b: u16 }
	impl Reg for SSkip {
		fn name() -> String { "SSkip".into() }
		fn descr() -> Value { tuple_descr(vec![u8::descr(), u16::descr()], size_of::<Self>()) }
		fn gen(g: &mut G) -> Self { SSkip { a: u8::gen(g), s: u32::gen(g), b: u16::gen(g) } }
		fn abs(&self) -> Value { json!([self.a.abs(), self.b.abs()]) }
	}

	/// single non-skipped field: the derive forwards all four Encode methods
	#[derive(Encode, Decode, DecodeWithMemTracking, Debug, PartialEq, Clone, Copy)]
	#[cfg_attr(feature = "max-encoded-len", derive(MaxEncodedLen))]
	pub struct SSingleCompact { #[codec(compact)] pub a: u64 }
	impl Reg for SSingleCompact {
		fn name() -> String { "SSingleCompact".into() }
		fn descr() -> Value { tuple_descr(vec![Compact::<u64>::descr()], size_of::<Self>()) }
		fn gen(g: &mut G) -> Self { SSingleCompact { a: u64::gen(g) } }
		fn abs(&self) -> Value { json!([digits(self.a as u128, 8)]) }
	}

	#[derive(Encode, Decode, DecodeWithMemTracking, Debug, PartialEq, Clone)]
	pub struct SSingle(pub Vec<u16>);
	impl Reg for SSingle {
		fn name() -> String { "SSingle".into() }
		fn descr() -> Value { tuple_descr(vec![Vec::<u16>::descr()], size_of::<Self>()) }
		fn gen(g: &mut G) -> Self { SSingle(Vec::gen(g)) }
		fn abs(&self) -> Value { json!([self.0.abs()]) }
	}

	#[derive(Encode, Decode, DecodeWithMemTracking, Debug, PartialEq, Clone, Copy)]
	#[cfg_attr(feature = "max-encoded-len", derive(MaxEncodedLen))]
	pub struct SEncodedAs {
		#[codec(encoded_as = "Compact<u16>")]
		pub a: u16,
		pub b: bool,
	}
	impl Reg for SEncodedAs {
		fn name() -> String { "SEncodedAs".into() }
		fn descr() -> Value { tuple_descr(vec![Compact::<u16>::descr(), bool::descr()], size_of::<Self>()) }
		fn gen(g: &mut G) -> Self { SEncodedAs { a: u16::gen(g), b: bool::gen(g) } }
		fn abs(&self) -> Value { json!([digits(self.a as u128, 2), self.b.abs()]) }
	}

	#[derive(Encode, Decode, DecodeWithMemTracking, Debug, PartialEq, Clone)]
	pub struct SGeneric<T> { pub x: T, pub y: Vec<T> }
	impl<T: Reg> Reg for SGeneric<T> {
		fn name() -> String { format!("SGeneric<{}>", T::name()) }
		fn descr() -> Value { tuple_descr(vec![T::descr(), Vec::<T>::descr()], size_of::<Self>()) }
		fn env(e: &mut Env) { T::env(e) }
		fn gen(g: &mut G) -> Self { g.nested(|g| SGeneric { x: T::gen(g), y: Vec::gen(g) }) }
		fn abs(&self) -> Value { json!([self.x.abs(), self.y.abs()]) }
	}

	/// repr(transparent): the derive decodes in place through pointer casts
	#[derive(Encode, Decode, DecodeWithMemTracking, Debug, PartialEq, Clone, Copy)]
	#[cfg_attr(feature = "max-encoded-len", derive(MaxEncodedLen))]
	#[repr(transparent)]
	pub struct STransp(pub u32);
	impl Reg for STransp {
		fn name() -> String { "STransp".into() }
		fn descr() -> Value { tuple_descr(vec![u32::descr()], size_of::<Self>()) }
		fn gen(g: &mut G) -> Self { STransp(u32::gen(g)) }
		fn abs(&self) -> Value { json!([self.0.abs()]) }
	}

	/// transparent newtype whose only field is compact: the in-place path must not be taken
	#[derive(Encode, Decode, DecodeWithMemTracking, Debug, PartialEq, Clone, Copy)]
	#[repr(transparent)]
	pub struct STranspC(#[codec(compact)] pub u64);
	impl Reg for STranspC {
		fn name() -> String { "STranspC".into() }
		fn descr() -> Value { tuple_descr(vec![Compact::<u64>::descr()], size_of::<Self>()) }
		fn gen(g: &mut G) -> Self { STranspC(u64::gen(g)) }
		fn abs(&self) -> Value { json!([digits(self.0 as u128, 8)]) }
	}

	/// encoded_as with a representation that is NOT the field's HasCompact type: a u32 written as eight bytes
	pub struct Wide(pub u64);
	pub struct WideRef<'a>(pub &'a u32);
	impl<'a> From<&'a u32> for WideRef<'a> { fn from(x: &'a u32) -> Self { WideRef(x) } }
	impl<'a> Encode for WideRef<'a> {
		fn encode_to<W: Output + ?Sized>(&self, dest: &mut W) { (*self.0 as u64).encode_to(dest) }
	}
	impl<'a> parity_scale_codec::EncodeAsRef<'a, u32> for Wide { type RefType = WideRef<'a>; }
	impl Decode for Wide {
		fn decode<I: Input>(input: &mut I) -> Result<Self, Error> {
			let v = u64::decode(input)?;
			if v > u32::MAX as u64 { Err("Wide out of range".into()) } else { Ok(Wide(v)) }
		}
	}
	impl DecodeWithMemTracking for Wide {}
	impl From<Wide> for u32 { fn from(w: Wide) -> u32 { w.0 as u32 } }
	#[derive(Encode, Decode, DecodeWithMemTracking, Debug, PartialEq, Clone, Copy)]
	pub struct SWide { #[codec(encoded_as = "Wide")] pub a: u32, pub b: u8 }
	impl Reg for SWide {
		fn name() -> String { "SWide".into() }
		fn descr() -> Value {
			// the eight-byte representation accepts only values that fit u32: modelled as u32 followed by four zero bytes
			tuple_descr(vec![u32::descr(), json!({"k":"enum","sz":0,"vs":[{"i":0,"ts":[]}]}), json!({"k":"enum","sz":0,"vs":[{"i":0,"ts":[]}]}),
				json!({"k":"enum","sz":0,"vs":[{"i":0,"ts":[]}]}), json!({"k":"enum","sz":0,"vs":[{"i":0,"ts":[]}]}), u8::descr()], size_of::<Self>())
		}
		fn gen(g: &mut G) -> Self { SWide { a: u32::gen(g), b: u8::gen(g) } }
		fn abs(&self) -> Value {
			let z = json!({"i":1,"fs":[]});
			json!([self.a.abs(), z.clone(), z.clone(), z.clone(), z, self.b.abs()])
		}
	}
	#[derive(Encode, Decode, DecodeWithMemTracking, Debug, PartialEq, Clone, Copy)]
	pub enum EWide { A(#[codec(encoded_as = "Wide")] u32, bool), B { #[codec(encoded_as = "Wide")] x: u32 } }
	impl Reg for EWide {
		fn name() -> String { "EWide".into() }
		fn descr() -> Value {
			let zero = json!({"k":"enum","sz":0,"vs":[{"i":0,"ts":[]}]});
			json!({"k":"enum","sz":size_of::<Self>(),"vs":[
				{"i":0,"ts":[u32::descr(), zero.clone(), zero.clone(), zero.clone(), zero.clone(), bool::descr()]},
				{"i":1,"ts":[u32::descr(), zero.clone(), zero.clone(), zero.clone(), zero]}]})
		}
		fn gen(g: &mut G) -> Self { if g.chance(1, 2) { EWide::A(u32::gen(g), bool::gen(g)) } else { EWide::B { x: u32::gen(g) } } }
		fn abs(&self) -> Value {
			let z = json!({"i":1,"fs":[]});
			match self {
				EWide::A(a, b) => json!({"i":1,"fs":[a.abs(), z.clone(), z.clone(), z.clone(), z, b.abs()]}),
				EWide::B { x } => json!({"i":2,"fs":[x.abs(), z.clone(), z.clone(), z.clone(), z]}),
			}
		}
	}

	/// transparent struct whose only field is skipped: decoding consumes nothing, in place too
	#[derive(Encode, Decode, DecodeWithMemTracking, Debug, PartialEq, Clone, Copy)]
	#[repr(transparent)]
	pub struct STranspSk { #[codec(skip)] pub hits: u32 }
	impl Reg for STranspSk {
		const ZLEN: bool = true;
		fn name() -> String { "STranspSk".into() }
		fn descr() -> Value { tuple_descr(vec![], size_of::<Self>()) }
		fn gen(g: &mut G) -> Self { STranspSk { hits: u32::gen(g) } }
		fn abs(&self) -> Value { json!([]) }
	}

	/// zero-sized field with a non-empty encoding inside a transparent struct
	#[derive(Encode, Decode, DecodeWithMemTracking, Debug, PartialEq, Clone, Copy)]
	pub enum EV1 { V1 }
	impl Reg for EV1 {
		fn name() -> String { "EV1".into() }
		fn descr() -> Value { json!({"k":"enum","sz":0,"vs":[{"i":0,"ts":[]}]}) }
		fn gen(_g: &mut G) -> Self { EV1::V1 }
		fn abs(&self) -> Value { json!({"i":1,"fs":[]}) }
	}
	#[derive(Encode, Decode, DecodeWithMemTracking, Debug, PartialEq, Clone, Copy)]
	#[repr(transparent)]
	pub struct STranspZ { pub payload: [u8; 4], pub version: EV1 }
	impl Reg for STranspZ {
		fn name() -> String { "STranspZ".into() }
		fn descr() -> Value {
			tuple_descr(vec![<[u8; 4]>::descr(), json!({"k":"enum","sz":0,"vs":[{"i":0,"ts":[]}]})], size_of::<Self>())
		}
		fn gen(g: &mut G) -> Self { STranspZ { payload: <[u8; 4]>::gen(g), version: EV1::V1 } }
		fn abs(&self) -> Value { json!([self.payload.abs(), {"i":1,"fs":[]}]) }
	}

	/// transparent struct: compact data field plus an attribute-free zero-sized marker
	#[derive(Encode, Decode, DecodeWithMemTracking, Debug, PartialEq, Clone, Copy)]
	#[repr(transparent)]
	pub struct STranspCM { #[codec(compact)] pub value: u32, pub marker: core::marker::PhantomData<u8> }
	impl Reg for STranspCM {
		fn name() -> String { "STranspCM".into() }
		fn descr() -> Value { tuple_descr(vec![Compact::<u32>::descr(), json!({"k":"unit","sz":0})], size_of::<Self>()) }
		fn gen(g: &mut G) -> Self { STranspCM { value: u32::gen(g), marker: core::marker::PhantomData } }
		fn abs(&self) -> Value { json!([digits(self.value as u128, 4), []]) }
	}
	#[derive(Encode, Decode, DecodeWithMemTracking, Debug, PartialEq, Clone, Copy)]
	#[repr(transparent)]
	pub struct STranspEA { pub marker: (), #[codec(encoded_as = "Compact<u64>")] pub value: u64 }
	impl Reg for STranspEA {
		fn name() -> String { "STranspEA".into() }
		fn descr() -> Value { tuple_descr(vec![json!({"k":"unit","sz":0}), Compact::<u64>::descr()], size_of::<Self>()) }
		fn gen(g: &mut G) -> Self { STranspEA { marker: (), value: u64::gen(g) } }
		fn abs(&self) -> Value { json!([[], digits(self.value as u128, 8)]) }
	}

	#[derive(Encode, Decode, DecodeWithMemTracking, Debug, PartialEq, Clone)]
	#[repr(transparent)]
	pub struct STranspBig(pub [u64; 100]);
	impl Reg for STranspBig {
		fn name() -> String { "STranspBig".into() }
		fn descr() -> Value { tuple_descr(vec![<[u64; 100]>::descr()], size_of::<Self>()) }
		fn gen(g: &mut G) -> Self { STranspBig(<[u64; 100]>::gen(g)) }
		fn abs(&self) -> Value { json!([self.0.abs()]) }
	}

	#[derive(CompactAs, Encode, Decode, DecodeWithMemTracking, Debug, PartialEq, Clone, Copy)]
	#[cfg_attr(feature = "max-encoded-len", derive(MaxEncodedLen))]
	pub struct CA(pub u32);
	impl Reg for CA {
		fn name() -> String { "CA".into() }
		fn descr() -> Value { tuple_descr(vec![u32::descr()], size_of::<Self>()) }
		fn gen(g: &mut G) -> Self { CA(u32::gen(g)) }
		fn abs(&self) -> Value { json!([self.0.abs()]) }
	}
	impl Reg for Compact<CA> {
		fn name() -> String { "Compact<CA>".into() }
		fn descr() -> Value { json!({"k":"compact","w":4,"sz":4}) }
		fn gen(g: &mut G) -> Self { Compact(CA(u32::gen(g))) }
		fn abs(&self) -> Value { digits(self.0 .0 as u128, 4) }
	}

	#[derive(Encode, Decode, DecodeWithMemTracking, Debug, PartialEq, Clone)]
	pub struct SHasCompact { #[codec(compact)] pub x: CA, pub y: Option<Box<u16>> }
	impl Reg for SHasCompact {
		fn name() -> String { "SHasCompact".into() }
		fn descr() -> Value {
			tuple_descr(vec![Compact::<u32>::descr(), Option::<Box<u16>>::descr()], size_of::<Self>())
		}
		fn gen(g: &mut G) -> Self { g.nested(|g| SHasCompact { x: CA::gen(g), y: Option::gen(g) }) }
		fn abs(&self) -> Value { json!([digits(self.x .0 as u128, 4), self.y.abs()]) }
	}

	/// generic compact field + MaxEncodedLen
	#[cfg(feature = "max-encoded-len")]
	pub trait MelBound: MaxEncodedLen {}
	#[cfg(feature = "max-encoded-len")]
	impl<T: MaxEncodedLen> MelBound for T {}
	#[cfg(not(feature = "max-encoded-len"))]
	pub trait MelBound {}
	#[cfg(not(feature = "max-encoded-len"))]
	impl<T> MelBound for T {}
	#[derive(Encode, Decode, DecodeWithMemTracking, Debug, PartialEq, Clone, Copy)]
	#[cfg_attr(feature = "max-encoded-len", derive(MaxEncodedLen))]
	pub struct SMelGeneric<T: parity_scale_codec::HasCompact + MelBound> { #[codec(compact)] pub a: T, pub b: u8 }
	macro_rules! smelgeneric { ($($t:ty, $w:expr);*) => {$(
		impl Reg for SMelGeneric<$t> {
			fn name() -> String { format!("SMelGeneric<{}>", stringify!($t)) }
			fn descr() -> Value { tuple_descr(vec![Compact::<$t>::descr(), u8::descr()], size_of::<Self>()) }
			fn gen(g: &mut G) -> Self { SMelGeneric { a: <$t>::gen(g), b: u8::gen(g) } }
			fn abs(&self) -> Value { json!([digits(self.a as u128, $w), self.b.abs()]) }
		}
	)*} }
	smelgeneric!(u32, 4; u64, 8);

	/// compact field of a CompactAs type + MaxEncodedLen
	#[derive(Encode, Decode, DecodeWithMemTracking, Debug, PartialEq, Clone, Copy)]
	#[cfg_attr(feature = "max-encoded-len", derive(MaxEncodedLen))]
	pub struct SMelCA { #[codec(compact)] pub a: CA, pub b: Option<u8> }
	impl Reg for SMelCA {
		fn name() -> String { "SMelCA".into() }
		fn descr() -> Value { tuple_descr(vec![Compact::<u32>::descr(), Option::<u8>::descr()], size_of::<Self>()) }
		fn gen(g: &mut G) -> Self { SMelCA { a: CA::gen(g), b: Option::gen(g) } }
		fn abs(&self) -> Value { json!([digits(self.a .0 as u128, 4), self.b.abs()]) }
	}

	#[derive(Encode, Decode, DecodeWithMemTracking, Debug, PartialEq, Clone, Copy)]
	#[cfg_attr(feature = "max-encoded-len", derive(MaxEncodedLen))]
	pub enum EMelCompact { A(#[codec(compact)] u128), B { #[codec(encoded_as = "Compact<u64>")] x: u64, y: u8 }, #[codec(skip)] C([u8; 64]) }
	impl Reg for EMelCompact {
		fn name() -> String { "EMelCompact".into() }
		fn descr() -> Value {
			json!({"k":"enum","sz":size_of::<Self>(),"vs":[
				variant(0, vec![Compact::<u128>::descr()]), variant(1, vec![Compact::<u64>::descr(), u8::descr()])]})
		}
		fn gen(g: &mut G) -> Self {
			if g.chance(1, 2) { EMelCompact::A(u128::gen(g)) } else { EMelCompact::B { x: u64::gen(g), y: u8::gen(g) } }
		}
		fn abs(&self) -> Value {
			match self {
				EMelCompact::A(a) => json!({"i":1,"fs":[digits(*a, 16)]}),
				EMelCompact::B { x, y } => json!({"i":2,"fs":[digits(*x as u128, 8), y.abs()]}),
				EMelCompact::C(_) => json!({"i":0,"fs":[]}),
			}
		}
	}

	/// variants with the same field types but different wire forms (plain first, compact / encoded_as after)
	#[derive(Encode, Decode, DecodeWithMemTracking, Debug, PartialEq, Clone, Copy)]
	#[cfg_attr(feature = "max-encoded-len", derive(MaxEncodedLen))]
	pub enum EMelShapes {
		Raw(u32),
		Packed(#[codec(compact)] u32),
		Wide { a: u64, b: u8 },
		Enc { #[codec(encoded_as = "Compact<u64>")] a: u64, b: u8 },
	}
	impl Reg for EMelShapes {
		fn name() -> String { "EMelShapes".into() }
		fn descr() -> Value {
			json!({"k":"enum","sz":size_of::<Self>(),"vs":[
				variant(0, vec![u32::descr()]), variant(1, vec![Compact::<u32>::descr()]),
				variant(2, vec![u64::descr(), u8::descr()]), variant(3, vec![Compact::<u64>::descr(), u8::descr()])]})
		}
		fn gen(g: &mut G) -> Self {
			match g.below(4) {
				0 => EMelShapes::Raw(u32::gen(g)),
				1 => EMelShapes::Packed(if g.chance(1, 2) { u32::MAX - g.below(3) as u32 } else { u32::gen(g) }),
				2 => EMelShapes::Wide { a: u64::gen(g), b: u8::gen(g) },
				_ => EMelShapes::Enc { a: if g.chance(1, 2) { u64::MAX - g.below(3) as u64 } else { u64::gen(g) }, b: u8::gen(g) },
			}
		}
		fn abs(&self) -> Value {
			match self {
				EMelShapes::Raw(a) => json!({"i":1,"fs":[a.abs()]}),
				EMelShapes::Packed(a) => json!({"i":2,"fs":[digits(*a as u128, 4)]}),
				EMelShapes::Wide { a, b } => json!({"i":3,"fs":[a.abs(), b.abs()]}),
				EMelShapes::Enc { a, b } => json!({"i":4,"fs":[digits(*a as u128, 8), b.abs()]}),
			}
		}
	}

	/// CompactAs over a 16-bit integer (the compact form of u16 is up to 4 bytes, not 2 + 1)
	#[derive(CompactAs, Encode, Decode, DecodeWithMemTracking, Debug, PartialEq, Clone, Copy)]
	#[cfg_attr(feature = "max-encoded-len", derive(MaxEncodedLen))]
	pub struct CA16(pub u16);
	impl Reg for CA16 {
		fn name() -> String { "CA16".into() }
		fn descr() -> Value { tuple_descr(vec![u16::descr()], size_of::<Self>()) }
		fn gen(g: &mut G) -> Self { CA16(u16::gen(g)) }
		fn abs(&self) -> Value { json!([self.0.abs()]) }
	}
	impl Reg for Compact<CA16> {
		fn name() -> String { "Compact<CA16>".into() }
		fn descr() -> Value { json!({"k":"compact","w":2,"sz":2}) }
		fn gen(g: &mut G) -> Self { Compact(CA16(if g.chance(1, 3) { u16::MAX - g.below(3) as u16 } else { u16::gen(g) })) }
		fn abs(&self) -> Value { digits(self.0 .0 as u128, 2) }
	}
	#[derive(Encode, Decode, DecodeWithMemTracking, Debug, PartialEq, Clone, Copy)]
	#[cfg_attr(feature = "max-encoded-len", derive(MaxEncodedLen))]
	pub struct SMelCA16 { #[codec(compact)] pub port: CA16, pub up: bool }
	impl Reg for SMelCA16 {
		fn name() -> String { "SMelCA16".into() }
		fn descr() -> Value { tuple_descr(vec![Compact::<u16>::descr(), bool::descr()], size_of::<Self>()) }
		fn gen(g: &mut G) -> Self { SMelCA16 { port: Compact::<CA16>::gen(g).0, up: bool::gen(g) } }
		fn abs(&self) -> Value { json!([digits(self.port.0 as u128, 2), self.up.abs()]) }
	}

	/// every field skipped: the encoding is empty but the in-memory size is not (known finding for C09)
	#[derive(Encode, Decode, DecodeWithMemTracking, Debug, PartialEq, Clone, Copy, Default)]
	pub struct SZ { #[codec(skip)] pub x: u64 }
	impl Reg for SZ {
		const ZLEN: bool = true;
		fn name() -> String { "SZ".into() }
		fn descr() -> Value { json!({"k":"tuple","ts":[],"sz":size_of::<Self>()}) }
		fn gen(_g: &mut G) -> Self { SZ { x: 0 } }
		fn abs(&self) -> Value { json!([]) }
	}

	fn variant(i: u8, ts: Vec<Value>) -> Value { json!({"i": i, "ts": ts}) }

	#[derive(Encode, Decode, DecodeWithMemTracking, Debug, PartialEq, Clone)]
	pub enum EPlain { A, B(u8), C { x: u16, y: Vec<u8> }, D(#[codec(compact)] u64) }
	impl Reg for EPlain {
		fn name() -> String { "EPlain".into() }
		fn descr() -> Value {
			json!({"k":"enum","sz":size_of::<Self>(),"vs":[
				variant(0, vec![]), variant(1, vec![u8::descr()]),
				variant(2, vec![u16::descr(), Vec::<u8>::descr()]), variant(3, vec![Compact::<u64>::descr()])]})
		}
		fn gen(g: &mut G) -> Self {
			g.nested(|g| match g.below(4) {
				0 => EPlain::A,
				1 => EPlain::B(u8::gen(g)),
				2 => EPlain::C { x: u16::gen(g), y: Vec::gen(g) },
				_ => EPlain::D(u64::gen(g)),
			})
		}
		fn abs(&self) -> Value {
			match self {
				EPlain::A => json!({"i":1,"fs":[]}),
				EPlain::B(b) => json!({"i":2,"fs":[b.abs()]}),
				EPlain::C { x, y } => json!({"i":3,"fs":[x.abs(), y.abs()]}),
				EPlain::D(d) => json!({"i":4,"fs":[digits(*d as u128, 8)]}),
			}
		}
	}

	#[derive(Encode, Decode, DecodeWithMemTracking, Debug, PartialEq, Clone, Copy)]
	#[cfg_attr(feature = "max-encoded-len", derive(MaxEncodedLen))]
	pub enum EDisc { A = 1, B = 5, C = 255 }
	impl Reg for EDisc {
		fn name() -> String { "EDisc".into() }
		fn descr() -> Value {
			json!({"k":"enum","sz":size_of::<Self>(),"vs":[variant(1, vec![]), variant(5, vec![]), variant(255, vec![])]})
		}
		fn gen(g: &mut G) -> Self { *g.pick(&[EDisc::A, EDisc::B, EDisc::C]) }
		fn abs(&self) -> Value { json!({"i": match self { EDisc::A => 1, EDisc::B => 2, EDisc::C => 3 }, "fs": []}) }
	}

	#[derive(Encode, Decode, DecodeWithMemTracking, Debug, PartialEq, Clone, Copy)]
	#[cfg_attr(feature = "max-encoded-len", derive(MaxEncodedLen))]
	pub enum EIdx {
		#[codec(index = 7)]
		A(u8),
		#[codec(index = 0)]
		B,
		#[codec(index = 200)]
		C { x: u32 },
	}
	impl Reg for EIdx {
		fn name() -> String { "EIdx".into() }
		fn descr() -> Value {
			json!({"k":"enum","sz":size_of::<Self>(),"vs":[
				variant(7, vec![u8::descr()]), variant(0, vec![]), variant(200, vec![u32::descr()])]})
		}
		fn gen(g: &mut G) -> Self {
			match g.below(3) { 0 => EIdx::A(u8::gen(g)), 1 => EIdx::B, _ => EIdx::C { x: u32::gen(g) } }
		}
		fn abs(&self) -> Value {
			match self {
				EIdx::A(a) => json!({"i":1,"fs":[a.abs()]}),
				EIdx::B => json!({"i":2,"fs":[]}),
				EIdx::C { x } => json!({"i":3,"fs":[x.abs()]}),
			}
		}
	}

	/// every index source at once: attribute wins over discriminant, discriminant over position
	#[derive(Encode, Decode, DecodeWithMemTracking, Debug, PartialEq, Clone, Copy)]
	#[cfg_attr(feature = "max-encoded-len", derive(MaxEncodedLen))]
	pub enum EBoth {
		#[codec(index = 7)]
		A = 16,
		B = 3,
		#[codec(index = 40)]
		C,
		D = 9,
		E,
	}
	impl Reg for EBoth {
		fn name() -> String { "EBoth".into() }
		fn descr() -> Value {
			json!({"k":"enum","sz":size_of::<Self>(),"vs":[variant(7, vec![]), variant(3, vec![]), variant(40, vec![]), variant(9, vec![]), variant(4, vec![])]})
		}
		fn gen(g: &mut G) -> Self { *g.pick(&[EBoth::A, EBoth::B, EBoth::C, EBoth::D, EBoth::E]) }
		fn abs(&self) -> Value {
			json!({"i": match self { EBoth::A => 1, EBoth::B => 2, EBoth::C => 3, EBoth::D => 4, EBoth::E => 5 }, "fs": []})
		}
	}

	/// skipped variant in the middle: later variants take their position among the
	/// non-skipped ones (C has index 1)
	#[derive(Encode, Decode, DecodeWithMemTracking, Debug, PartialEq, Clone, Copy)]
	#[cfg_attr(feature = "max-encoded-len", derive(MaxEncodedLen))]
	pub enum ESkip {
		A(u8),
		#[codec(skip)]
		B,
		C(u16, #[codec(skip)] u32),
	}
	impl Reg for ESkip {
		fn name() -> String { "ESkip".into() }
		fn descr() -> Value {
			json!({"k":"enum","sz":size_of::<Self>(),"vs":[variant(0, vec![u8::descr()]), variant(1, vec![u16::descr()])]})
		}
		fn gen(g: &mut G) -> Self { if g.chance(1, 2) { ESkip::A(u8::gen(g)) } else { ESkip::C(u16::gen(g), u32::gen(g)) } }
		fn abs(&self) -> Value {
			match self {
				ESkip::A(a) => json!({"i":1,"fs":[a.abs()]}),
				ESkip::B => json!({"i":0,"fs":[]}),
				ESkip::C(c, _) => json!({"i":2,"fs":[c.abs()]}),
			}
		}
	}

	// ------------------------------------------------------------ recursive types

	macro_rules! named { ($n:expr) => { json!({"k":"named","n":$n}) } }

	#[derive(Encode, Decode, DecodeWithMemTracking, Debug, PartialEq, Clone)]
	pub struct RV(pub Vec<RV>);
	impl Reg for RV {
		fn name() -> String { "RV".into() }
		fn descr() -> Value { named!("RV") }
		fn env(e: &mut Env) {
			e.insert("RV".into(), json!({"k":"tuple","sz":size_of::<Self>(),"ts":[
				{"k":"seq","t":named!("RV"),"c":"vec","sz":size_of::<Vec<RV>>()}]}));
		}
		fn gen(g: &mut G) -> Self {
			if g.depth == 0 { return RV(vec![]) }
			let n = g.below(3);
			RV(g.nested(|g| (0..n).map(|_| RV::gen(g)).collect()))
		}
		fn abs(&self) -> Value { json!([Value::Array(self.0.iter().map(|x| x.abs()).collect())]) }
	}

	#[derive(Encode, Decode, DecodeWithMemTracking, Debug, PartialEq, Clone)]
	pub struct RB(pub Option<Box<RB>>);
	impl Reg for RB {
		fn name() -> String { "RB".into() }
		fn descr() -> Value { named!("RB") }
		fn env(e: &mut Env) {
			e.insert("RB".into(), json!({"k":"tuple","sz":size_of::<Self>(),"ts":[
				{"k":"option","sz":size_of::<Option<Box<RB>>>(),
				 "t":{"k":"ptr","p":"box","t":named!("RB"),"sz":size_of::<Box<RB>>(),"tsz":size_of::<RB>()}}]}));
		}
		fn gen(g: &mut G) -> Self {
			if g.depth == 0 || g.chance(1, 3) { RB(None) } else { RB(Some(Box::new(g.nested(RB::gen)))) }
		}
		fn abs(&self) -> Value { match &self.0 { None => json!([[]]), Some(b) => json!([[b.abs()]]) } }
	}

	#[derive(Encode, Decode, DecodeWithMemTracking, Debug, PartialEq, Clone)]
	pub enum Tree { Leaf(u8), Node(Box<Tree>, Box<Tree>) }
	impl Reg for Tree {
		fn name() -> String { "Tree".into() }
		fn descr() -> Value { named!("Tree") }
		fn env(e: &mut Env) {
			let b = json!({"k":"ptr","p":"box","t":named!("Tree"),"sz":size_of::<Box<Tree>>(),"tsz":size_of::<Tree>()});
			e.insert("Tree".into(), json!({"k":"enum","sz":size_of::<Self>(),"vs":[
				variant(0, vec![u8::descr()]), variant(1, vec![b.clone(), b])]}));
		}
		fn gen(g: &mut G) -> Self {
			if g.depth == 0 || g.chance(1, 2) { Tree::Leaf(u8::gen(g)) }
			else { g.nested(|g| Tree::Node(Box::new(Tree::gen(g)), Box::new(Tree::gen(g)))) }
		}
		fn abs(&self) -> Value {
			match self {
				Tree::Leaf(x) => json!({"i":1,"fs":[x.abs()]}),
				Tree::Node(a, b) => json!({"i":2,"fs":[a.abs(), b.abs()]}),
			}
		}
	}

	#[derive(Encode, Decode, DecodeWithMemTracking, Debug, PartialEq, Clone)]
	pub struct RM(pub BTreeMap<u8, RM>);
	impl Reg for RM {
		fn name() -> String { "RM".into() }
		fn descr() -> Value { named!("RM") }
		fn env(e: &mut Env) {
			e.insert("RM".into(), json!({"k":"tuple","sz":size_of::<Self>(),"ts":[
				{"k":"map","key":u8::descr(),"val":named!("RM"),"esz":size_of::<(u8, RM)>(),"sz":size_of::<BTreeMap<u8, RM>>()}]}));
		}
		fn gen(g: &mut G) -> Self {
			if g.depth == 0 { return RM(BTreeMap::new()) }
			let n = g.below(3);
			RM(g.nested(|g| (0..n).map(|_| (u8::gen(g), RM::gen(g))).collect()))
		}
		fn abs(&self) -> Value { json!([Value::Array(self.0.iter().map(|(k, v)| json!([k.abs(), v.abs()])).collect())]) }
	}

	#[derive(Encode, Decode, DecodeWithMemTracking, Debug, PartialEq, Clone)]
	pub struct RL(pub LinkedList<RL>);
	impl Reg for RL {
		fn name() -> String { "RL".into() }
		fn descr() -> Value { named!("RL") }
		fn env(e: &mut Env) {
			e.insert("RL".into(), json!({"k":"tuple","sz":size_of::<Self>(),"ts":[
				{"k":"seq","t":named!("RL"),"c":"list","sz":size_of::<LinkedList<RL>>()}]}));
		}
		fn gen(g: &mut G) -> Self {
			if g.depth == 0 { return RL(LinkedList::new()) }
			let n = g.below(3);
			RL(g.nested(|g| (0..n).map(|_| RL::gen(g)).collect()))
		}
		fn abs(&self) -> Value { json!([Value::Array(self.0.iter().map(|x| x.abs()).collect())]) }
	}
}
