------------------------------- MODULE Append -------------------------------
(***************************************************************************)
(* EncodeAppend (property C15): appending a batch of items to an encoded   *)
(* sequence without decoding it.                                           *)
(*                                                                         *)
(* REQUIREMENT  AppendReq: the result is the encoding of the old sequence  *)
(* followed by the batch; an error iff the combined count exceeds 2^32-1   *)
(* or the buffer does not begin with a valid count; an empty buffer stands *)
(* for "no sequence yet".                                                  *)
(*                                                                         *)
(* IMPLEMENTATION-SHAPED  AppendImpl: what append_or_new_impl does -       *)
(* decode the count prefix, convert the batch size, add with overflow      *)
(* check, compare the prefix widths, rewrite the prefix in place or move    *)
(* the payload behind a wider prefix, then write the items.  The           *)
(* conversion of the batch size is a parameter: "checked" (the repaired    *)
(* code) or "legacy" (`as u32`, the behaviour before the fix, kept as a    *)
(* named variant so that TLC still exhibits the counterexample).           *)
(*                                                                         *)
(* Counts are digit strings (they exceed TLC's integers).  Item encodings  *)
(* are abstract byte strings; a batch is [n |-> count digits, item |->     *)
(* bytes of one item]: n copies of the same item (zero-width items make    *)
(* counts near 2^30 and 2^32 reachable).                                   *)
(***************************************************************************)
EXTENDS Compact

U32Max == <<255, 255, 255, 255>>
AErr == [ok |-> FALSE, buf |-> <<>>]
AOk(b) == [ok |-> TRUE, buf |-> b]

\* n copies of item (n small enough to build when the item is not empty)
Repeat(item, n) == IF Len(item) = 0 THEN <<>>
                   ELSE [i \in 1..(ToNat(n) * Len(item)) |-> item[((i - 1) % Len(item)) + 1]]

\* requirement: old count (digits) and old payload are the ghost state
AppendReq(started, oldn, payload, batch) ==
  LET newn == Strip(DigAdd(oldn, batch.n)) IN
  IF DigLess(U32Max, newn) THEN AErr
  ELSE AOk(CompactEnc(newn) \o payload \o Repeat(batch.item, batch.n))

\* conversion of the batch size to u32
Cast(mode, n) == IF mode = "legacy" THEN Strip(SubSeq(Pad(n, 8), 1, 4))      \* n mod 2^32
                 ELSE n

\* further named slips (seeded changes): "width_from_mode" takes the old prefix width as 1 << (first byte % 4), which is 8
\* instead of 5 for the big-integer mode; "empty_batch_noop" returns the input untouched when the batch is empty
\* "shift_from_growth": the payload is moved from offset (new width - old width) instead of from the old width (equal for
\* the 1->2 and 2->4 byte steps, different when a batch jumps two classes or crosses 4->5);
\* "uniform_prefix": a same-width prefix is rewritten as (count << 2 | mode) in `width` bytes, which is not the form of the
\* five-byte big-integer prefix;  "one_byte_is_empty": a buffer of at most one byte is taken for "no sequence yet"
AppendImpl(mode, buf, batch) ==
  IF mode = "empty_batch_noop" /\ IsZeroDig(batch.n) THEN AOk(buf) ELSE
  IF Len(buf) = 0 \/ (mode = "one_byte_is_empty" /\ Len(buf) <= 1)
  THEN IF DigLess(U32Max, batch.n) THEN AErr                                \* compact_encode_len_to
       ELSE AOk(CompactEnc(batch.n) \o Repeat(batch.item, batch.n))
  ELSE LET c == CompactDec(4, buf, 0) IN
       IF ~c.ok THEN AErr
       ELSE IF mode # "legacy" /\ DigLess(U32Max, batch.n) THEN AErr        \* u32::try_from(items_to_append)
       ELSE LET add == Cast(mode, batch.n)
                newn == Strip(DigAdd(c.v, add))
            IN IF DigLess(U32Max, newn) THEN AErr                           \* checked_add
               ELSE LET oldw == IF mode = "width_from_mode" THEN 2 ^ (buf[1] % 4) ELSE CompactLen(c.v)
                        neww == CompactLen(newn)
                        from == IF mode = "shift_from_growth" /\ neww > oldw THEN neww - oldw ELSE oldw
                        body == SubSeq(buf, from + 1, Len(buf))
                        pre == IF mode = "uniform_prefix" /\ neww = 5
                               THEN LET sh == DigAdd(DigAdd(newn, newn), DigAdd(newn, newn)) IN          \* count << 2, low bits 0b11
                                    [i \in 1..5 |-> IF i = 1 THEN (Pad(sh, 5)[1] + 3) % 256 ELSE Pad(sh, 5)[i]]
                               ELSE CompactEnc(newn)
                    IN IF oldw = neww
                       THEN AOk(pre \o SubSeq(buf, neww + 1, Len(buf)) \o Repeat(batch.item, batch.n))  \* prefix overwritten in place
                       ELSE IF oldw > Len(buf) THEN AErr                                                           \* slicing past the end panics
                       ELSE AOk(CompactEnc(newn) \o body \o Repeat(batch.item, batch.n))                           \* payload moved behind the new prefix
                    \* oldw = neww: prefix overwritten in place; otherwise payload moved: same bytes
=============================================================================
