------------------------------- MODULE Bytes -------------------------------
(***************************************************************************)
(* Byte strings and naturals as little-endian base-256 digit strings.      *)
(*                                                                         *)
(* TLC integers are 32-bit Java ints, so every quantity of the SCALE       *)
(* format that can exceed 2^31-1 (u32..u128 values, element counts up to   *)
(* 2^32-1, 10^9) is carried as a sequence of digits 0..255, least          *)
(* significant first.  This module supplies the arithmetic the rest of the *)
(* specification needs on such strings, a UTF-8 validity automaton         *)
(* (RFC 3629 / Unicode table 3-7) and small helpers on sequences.          *)
(***************************************************************************)
EXTENDS Naturals, Integers, Sequences, SequencesExt, FiniteSets

Byte == 0..255
Huge == 2147483647          \* "does not fit a TLC integer" marker for ToNat

MaxOf(a, b) == IF a >= b THEN a ELSE b
MinOf(a, b) == IF a <= b THEN a ELSE b

Pow2(k) == 2^k              \* k <= 30
Pow256(k) == 256^k          \* k <= 3

\* index of the highest non-zero digit (0 if all digits are zero)
HighNZ(d) == IF \A i \in 1..Len(d) : d[i] = 0 THEN 0
             ELSE CHOOSE i \in 1..Len(d) : d[i] # 0 /\ \A j \in (i+1)..Len(d) : d[j] = 0

Strip(d) == SubSeq(d, 1, HighNZ(d))
IsZeroDig(d) == HighNZ(d) = 0
Pad(d, w) == [i \in 1..w |-> IF i <= Len(d) THEN d[i] ELSE 0]
Fits(d, w) == HighNZ(d) <= w

\* unsigned comparison of digit strings of any lengths
DigLess(a, b) ==
  LET ha == HighNZ(a)  hb == HighNZ(b) IN
  IF ha # hb THEN ha < hb
  ELSE \E i \in 1..ha : a[i] < b[i] /\ \A j \in (i+1)..ha : a[j] = b[j]
DigEq(a, b) == Strip(a) = Strip(b)
DigLeq(a, b) == DigLess(a, b) \/ DigEq(a, b)

\* value of a digit string if it fits in 31 bits, else Huge
ToNat(d) ==
  LET h == HighNZ(d) IN
  IF h = 0 THEN 0
  ELSE IF h > 4 \/ (h = 4 /\ d[4] >= 128) THEN Huge
  ELSE d[1] + (IF h >= 2 THEN d[2] * 256 ELSE 0)
            + (IF h >= 3 THEN d[3] * 65536 ELSE 0)
            + (IF h >= 4 THEN d[4] * 16777216 ELSE 0)

\* w digits of a natural n < 2^31
FromNat(n, w) == [i \in 1..w |-> IF i <= 4 THEN (n \div Pow256(i-1)) % 256 ELSE 0]

\* a + b on digit strings, result has MaxOf(Len)+1 digits (then stripped by callers)
RECURSIVE AddCarry(_, _, _, _, _)
AddCarry(a, b, i, c, n) ==
  IF i > n THEN <<c>>
  ELSE LET x == (IF i <= Len(a) THEN a[i] ELSE 0) + (IF i <= Len(b) THEN b[i] ELSE 0) + c
       IN <<x % 256>> \o AddCarry(a, b, i + 1, x \div 256, n)
DigAdd(a, b) == AddCarry(a, b, 1, 0, MaxOf(Len(a), Len(b)))

\* signed order on two's-complement strings of equal width w
SignedLess(a, b, w) ==
  LET fa == [a EXCEPT ![w] = (a[w] + 128) % 256]
      fb == [b EXCEPT ![w] = (b[w] + 128) % 256]
  IN DigLess(fa, fb)

\* lexicographic order on sequences given an element order
RECURSIVE LexLessFrom(_, _, _, _)
LexLessFrom(Lt(_, _), a, b, i) ==
  IF i > Len(b) THEN FALSE
  ELSE IF i > Len(a) THEN TRUE
  ELSE IF Lt(a[i], b[i]) THEN TRUE
  ELSE IF Lt(b[i], a[i]) THEN FALSE
  ELSE LexLessFrom(Lt, a, b, i + 1)
LexLess(Lt(_, _), a, b) == LexLessFrom(Lt, a, b, 1)

(***************************************************************************)
(* UTF-8 validity: a DFA folded over the bytes.  States: 0 = between       *)
(* characters; 1,2,3 = that many continuation bytes 80..BF still due;      *)
(* 4 = after E0 (next A0..BF); 5 = after ED (next 80..9F);                 *)
(* 6 = after F0 (next 90..BF); 7 = after F4 (next 80..8F); 9 = reject.     *)
(***************************************************************************)
InR(b, lo, hi) == lo <= b /\ b <= hi
Utf8Step(q, b) ==
  CASE q = 0 -> (IF b <= 127 THEN 0
                 ELSE IF InR(b, 194, 223) THEN 1
                 ELSE IF b = 224 THEN 4
                 ELSE IF InR(b, 225, 236) \/ InR(b, 238, 239) THEN 2
                 ELSE IF b = 237 THEN 5
                 ELSE IF b = 240 THEN 6
                 ELSE IF InR(b, 241, 243) THEN 3
                 ELSE IF b = 244 THEN 7
                 ELSE 9)
    [] q = 1 -> IF InR(b, 128, 191) THEN 0 ELSE 9
    [] q = 2 -> IF InR(b, 128, 191) THEN 1 ELSE 9
    [] q = 3 -> IF InR(b, 128, 191) THEN 2 ELSE 9
    [] q = 4 -> IF InR(b, 160, 191) THEN 1 ELSE 9
    [] q = 5 -> IF InR(b, 128, 159) THEN 1 ELSE 9
    [] q = 6 -> IF InR(b, 144, 191) THEN 2 ELSE 9
    [] q = 7 -> IF InR(b, 128, 143) THEN 2 ELSE 9
    [] OTHER -> 9
Utf8Valid(s) == FoldLeft(Utf8Step, 0, s) = 0

\* bit k (0 = least significant) of a byte
BitOf(byte, k) == (byte \div Pow2(k)) % 2

IsPrefixAt(pre, s, p) == p + Len(pre) <= Len(s) /\ SubSeq(s, p + 1, p + Len(pre)) = pre
=============================================================================
