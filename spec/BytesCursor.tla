----------------------------- MODULE BytesCursor -----------------------------
(***************************************************************************)
(* IMPLEMENTATION-SHAPED model of the shared-buffer input back-end behind  *)
(* `decode_from_bytes` (property C08): a reference-counted buffer plus a   *)
(* read position.  Ordinary reads copy out and move the position; a        *)
(* `Bytes` value is decoded without copying by dropping the consumed       *)
(* prefix from the buffer (`advance`), resetting the position, checking    *)
(* that the announced length fits what is LEFT, and splitting it off.      *)
(*                                                                         *)
(* REQUIREMENT: the back-end behaves like a slice - at every moment the    *)
(* bytes handed out so far are a prefix of the original input, a request   *)
(* succeeds iff that many bytes are left, and nothing panics.              *)
(*                                                                         *)
(* Variant names the slips that four independently seeded changes made:    *)
(*   "check_before_advance"  length compared with the un-advanced buffer   *)
(*   "no_reset"              position not reset after advance              *)
(*   "position_is_length"    position set to the length just split off     *)
(***************************************************************************)
EXTENDS Naturals, Sequences

CONSTANTS Total,     \* length of the original input
          MaxOps,
          Variant    \* "faithful" | "check_before_advance" | "no_reset" | "position_is_length"

VARIABLES buflen,    \* length of the buffer still held
          position,  \* read position inside it
          logical,   \* ghost: bytes of the original input handed out so far
          status,    \* "run" | "err" | "panic"
          nops
vars == <<buflen, position, logical, status, nops>>

Init == buflen = Total /\ position = 0 /\ logical = 0 /\ status = "run" /\ nops = 0

\* Input::read of n bytes
Read(n) ==
  /\ status = "run" /\ nops < MaxOps /\ nops' = nops + 1
  /\ IF n > buflen - position
     THEN status' = "err" /\ UNCHANGED <<buflen, position, logical>>
     ELSE /\ position' = position + n /\ logical' = logical + n
          /\ UNCHANGED <<buflen, status>>

\* scale_internal_decode_bytes with an announced length len (its compact prefix has been read already)
TakeBytes(len) ==
  /\ status = "run" /\ nops < MaxOps /\ nops' = nops + 1
  /\ LET advanced == buflen - position                       \* Buf::advance(position)
         fits == IF Variant = "check_before_advance" THEN len <= buflen ELSE len <= advanced
         newpos == IF Variant = "no_reset" THEN position ELSE IF Variant = "position_is_length" THEN len ELSE 0
     IN IF ~fits
        THEN status' = "err" /\ UNCHANGED <<buflen, position, logical>>
        ELSE IF len > advanced
        THEN status' = "panic" /\ UNCHANGED <<buflen, position, logical>>      \* Bytes::split_to out of bounds
        ELSE /\ buflen' = advanced - len
             /\ position' = newpos
             /\ logical' = logical + len
             /\ UNCHANGED status

Next == \E n \in 0..Total : Read(n) \/ TakeBytes(n)
Spec == Init /\ [][Next]_vars

\* what a slice would have left
Remaining == Total - logical
NeverPanics == status # "panic"
LikeASlice == status = "run" => buflen - position = Remaining
PositionInside == position <= buflen
\* a request fails only if the slice would fail too (checked on the step that failed)
FailsOnlyWhenShort ==
  [][ (status = "run" /\ status' = "err") => \E n \in 0..Total : n > Remaining ]_vars
=============================================================================
