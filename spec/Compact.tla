------------------------------ MODULE Compact ------------------------------
(***************************************************************************)
(* SCALE compact integers on digit strings (requirement layer).            *)
(*                                                                         *)
(*   mode 0  one byte     value < 2^6     byte  = v*4                      *)
(*   mode 1  two bytes    value < 2^14    LE16  = v*4 + 1                  *)
(*   mode 2  four bytes   value < 2^30    LE32  = v*4 + 2                  *)
(*   mode 3  1+k bytes    otherwise       first = (k-4)*4 + 3, then the k  *)
(*           little-endian digits of v, k minimal (no leading zero digit)  *)
(*                                                                         *)
(* CompactDec(W, s, p) is the decoder for a W-byte unsigned target: it     *)
(* accepts exactly the canonical (shortest) form of a value that fits W.   *)
(***************************************************************************)
EXTENDS Bytes

\* value < 2^(8k-2)
Below(b, k) == LET h == HighNZ(b) IN h < k \/ (h = k /\ b[k] < 64)

\* n bytes holding (value * 4 + mode), value given by digits b (value < 2^(8n-2))
Shl2(b, n, mode) ==
  [i \in 1..n |->
      (((IF i <= Len(b) THEN b[i] ELSE 0) * 4) % 256)
    + (IF i = 1 THEN mode ELSE (IF i - 1 <= Len(b) THEN b[i-1] ELSE 0) \div 64)]

\* inverse: the n bytes x (n in {1,2,4}) divided by four, as n digits
Shr2(x) ==
  LET n == Len(x) IN
  [i \in 1..n |-> (x[i] \div 4) + ((IF i < n THEN x[i+1] ELSE 0) % 4) * 64]

CompactEnc(d) ==
  LET b == Strip(d)  k == Len(b) IN
       IF Below(b, 1) THEN Shl2(b, 1, 0)
  ELSE IF Below(b, 2) THEN Shl2(b, 2, 1)
  ELSE IF Below(b, 4) THEN Shl2(b, 4, 2)
  ELSE <<3 + (k - 4) * 4>> \o b

CompactLen(d) ==
  LET b == Strip(d) IN
       IF Below(b, 1) THEN 1
  ELSE IF Below(b, 2) THEN 2
  ELSE IF Below(b, 4) THEN 4
  ELSE Len(b) + 1

CErr == [ok |-> FALSE, v |-> <<>>, p |-> 0]
COk(v, W, p) == [ok |-> TRUE, v |-> Pad(v, W), p |-> p]

\* W in {1,2,4,8,16}: byte width of the target integer
CompactDec(W, s, p) ==
  IF p + 1 > Len(s) THEN CErr ELSE
  LET t == s[p+1]  m == t % 4 IN
  CASE m = 0 -> COk(<<t \div 4>>, W, p + 1)
    [] m = 1 -> IF p + 2 <= Len(s)
                THEN LET v == Shr2(SubSeq(s, p + 1, p + 2)) IN
                     IF ~Below(v, 1) /\ Fits(v, W) THEN COk(v, W, p + 2) ELSE CErr
                ELSE CErr
    [] m = 2 -> IF W >= 2 /\ p + 4 <= Len(s)
                THEN LET v == Shr2(SubSeq(s, p + 1, p + 4)) IN
                     IF ~Below(v, 2) /\ Fits(v, W) THEN COk(v, W, p + 4) ELSE CErr
                ELSE CErr
    [] m = 3 -> LET k == (t \div 4) + 4 IN
                IF W >= 4 /\ k <= W /\ p + 1 + k <= Len(s)
                THEN LET v == SubSeq(s, p + 2, p + 1 + k) IN
                     IF v[k] # 0 /\ ~Below(v, 4) THEN COk(v, W, p + 1 + k) ELSE CErr
                ELSE CErr

\* number of bytes the decoder needs to see to decide (for truncation reasoning)
CompactMaxLen(W) == CASE W = 1 -> 2 [] W = 2 -> 4 [] W = 4 -> 5 [] W = 8 -> 9 [] W = 16 -> 17
=============================================================================
