----------------------------- MODULE CompactImpl -----------------------------
(***************************************************************************)
(* IMPLEMENTATION-SHAPED transcription of `Decode for Compact<uN>`         *)
(* (src/compact.rs:473-683), branch by branch, on small integers where the *)
(* code computes on u16/u32 and on digit strings where it computes on      *)
(* u64/u128: prefix byte, `prefix % 4` dispatch, the PrefixInput re-read,  *)
(* the per-width range tests (`x > 0b0011_1111 && x <= 255`, `x < 65536`,  *)
(* `x > u32::MAX >> 2`, `prefix >> 2 == 0`, `bytes_needed`, ...).          *)
(* MC_Compact checks ImplDec = CompactDec (the requirement) on the whole   *)
(* explored string space.  DVariant names slips that seeded changes made:  *)
(*   "u16_narrow_first"   the four-byte mode of the 16-bit decoder casts   *)
(*                        to u16 before the range test (upper bound lost)  *)
(*   "u32_any_tag"        the 32-bit decoder accepts every 0b11 prefix     *)
(*   "u8_ge"              `>` replaced by `>=` in the 8-bit two-byte mode  *)
(*   "u128_any_width"     announced widths above 16 read as 16             *)
(*   "u64_guard_16"       the 64-bit width guard uses the 128-bit constant *)
(***************************************************************************)
EXTENDS Compact

CONSTANT DVariant

Have(s, p, n) == p + n <= Len(s)
LE2(s, p) == s[p+1] + 256 * s[p+2]                       \* u16::decode
\* u32 >> 2 of the four bytes at p, as digits (may exceed TLC integers when taken whole)
Shr2At(s, p, n) == Shr2(SubSeq(s, p + 1, p + n))
IErr == [ok |-> FALSE, v |-> <<>>, p |-> 0]
IOk(v, W, p) == [ok |-> TRUE, v |-> Pad(v, W), p |-> p]

ImplDec(W, s, p) ==
  IF ~Have(s, p, 1) THEN IErr ELSE
  LET prefix == s[p+1]  mode == prefix % 4 IN
  CASE mode = 0 -> IOk(<<prefix \div 4>>, W, p + 1)
    [] mode = 1 ->
         IF ~Have(s, p, 2) THEN IErr
         ELSE LET x == LE2(s, p) \div 4 IN
              IF W = 1
              THEN IF (IF DVariant = "u8_ge" THEN x >= 63 ELSE x > 63) /\ x <= 255 THEN IOk(<<x>>, W, p + 2) ELSE IErr
              ELSE IF x > 63 /\ x <= 16383 THEN IOk(<<x % 256, x \div 256>>, W, p + 2) ELSE IErr
    [] mode = 2 ->
         IF W = 1 THEN IErr                                      \* "unexpected prefix decoding Compact<u8>"
         ELSE IF ~Have(s, p, 4) THEN IErr
         ELSE LET x == Shr2At(s, p, 4) IN                        \* u32::decode(..) >> 2, four digits
              IF W = 2
              THEN IF DVariant = "u16_narrow_first"
                   THEN LET lo == SubSeq(x, 1, 2) IN             \* `as u16` first: only x > 0x3fff is tested
                        IF ~Below(lo, 2) THEN IOk(lo, W, p + 4) ELSE IErr
                   ELSE IF ~Below(x, 2) /\ HighNZ(x) <= 2 THEN IOk(x, W, p + 4) ELSE IErr     \* x > 0x3fff && x < 65536
              ELSE IF ~Below(x, 2) THEN IOk(x, W, p + 4) ELSE IErr                           \* x > 0x3fff && x <= u32::MAX >> 2
    [] mode = 3 ->
         IF W <= 2 THEN IErr
         ELSE IF W = 4
         THEN IF prefix \div 4 = 0 \/ DVariant = "u32_any_tag"
              THEN IF ~Have(s, p + 1, 4) THEN IErr
                   ELSE LET x == SubSeq(s, p + 2, p + 5) IN
                        IF ~Below(x, 4) THEN IOk(x, W, p + 5) ELSE IErr                      \* x > u32::MAX >> 2
              ELSE IErr
         ELSE LET need0 == (prefix \div 4) + 4
                  \* "u128_any_width": the 128-bit decoder's catch-all arm reads 16 bytes for every larger announced width
                  need == IF DVariant = "u128_any_width" /\ W = 16 /\ need0 > 16 THEN 16 ELSE need0
                  \* "u64_guard_16": the 64-bit decoder tests the announced width against 16 (copied from the 128-bit one)
                  limit == IF DVariant = "u64_guard_16" /\ W = 8 THEN 16 ELSE W
              IN
              IF need > limit THEN IErr                                                      \* "unexpected prefix"
              ELSE IF ~Have(s, p + 1, need) THEN IErr
              ELSE LET x == SubSeq(s, p + 2, p + 1 + need) IN
                   IF need = 4 THEN (IF ~Below(x, 4) THEN IOk(x, W, p + 5) ELSE IErr)
                   ELSE IF x[need] # 0 THEN IOk(x, W, p + 1 + need) ELSE IErr               \* res > MAX >> ((W - need + 1) * 8)
=============================================================================
