----------------------------- MODULE Containers -----------------------------
(***************************************************************************)
(* Construction histories of containers (property C06): the encoding must  *)
(* depend on the logical content only.                                     *)
(*                                                                         *)
(* REQUIREMENT  Logical(cont, ops): the logical value reached by applying  *)
(* the operations ops to the empty container - a sequence for deques,      *)
(* vectors, lists and bit vectors, a key-ordered sequence for maps and     *)
(* sets.  The encoding after any history must be Enc(ty, Logical).         *)
(*                                                                         *)
(* IMPLEMENTATION-SHAPED  a ring-buffer deque [buf, head, len] whose       *)
(* encoder writes the two physical slices one after the other (what        *)
(* `VecDeque::encode_to` does through `as_slices`), and a bit vector       *)
(* stored in words with a head offset whose encoder re-chunks from the     *)
(* logical start.                                                          *)
(*                                                                         *)
(* Operations are tuples <<name, args...>>:                                *)
(*  sequences: pb x | pf x | ob | of | rl k | rr k | mc | rs n | sh |      *)
(*             tr n | in i x | rm i | cl | sw i j | ap xs | so i           *)
(*  maps:      mi k v | mr k          sets: si x | sr x                    *)
(*  bits:      bp b | bs a b (replace by the sub-slice [a, b))             *)
(***************************************************************************)
EXTENDS ScaleFormat

RotL(s, k) == IF Len(s) = 0 THEN s ELSE LET r == k % Len(s) IN SubSeq(s, r + 1, Len(s)) \o SubSeq(s, 1, r)
RemoveAtIdx(s, i) == SubSeq(s, 1, i - 1) \o SubSeq(s, i + 1, Len(s))
InsertAtIdx(s, i, x) == SubSeq(s, 1, i - 1) \o <<x>> \o SubSeq(s, i, Len(s))
Swap(s, i, j) == [s EXCEPT ![i] = s[j], ![j] = s[i]]

\* one operation on a logical sequence; operations whose precondition fails are no-ops
SeqOp(s, op) ==
  LET o == op[1] IN
  CASE o = "pb" -> Append(s, op[2])
    [] o = "pf" -> <<op[2]>> \o s
    [] o = "ob" -> IF Len(s) = 0 THEN s ELSE SubSeq(s, 1, Len(s) - 1)
    [] o = "of" -> IF Len(s) = 0 THEN s ELSE SubSeq(s, 2, Len(s))
    [] o = "rl" -> RotL(s, op[2])
    [] o = "rr" -> IF Len(s) = 0 THEN s ELSE RotL(s, Len(s) - (op[2] % Len(s)))
    [] o \in {"mc", "rs", "sh"} -> s
    [] o = "tr" -> SubSeq(s, 1, MinOf(op[2], Len(s)))
    [] o = "in" -> IF op[2] <= Len(s) THEN InsertAtIdx(s, op[2] + 1, op[3]) ELSE s
    [] o = "rm" -> IF op[2] < Len(s) THEN RemoveAtIdx(s, op[2] + 1) ELSE s
    [] o = "cl" -> <<>>
    [] o = "sw" -> IF op[2] < Len(s) /\ op[3] < Len(s) THEN Swap(s, op[2] + 1, op[3] + 1) ELSE s
    [] o = "ap" -> s \o op[2]
    [] o = "so" -> SubSeq(s, 1, MinOf(op[2], Len(s)))
    [] o = "bp" -> Append(s, op[2])
    [] o = "bs" -> SubSeq(s, MinOf(op[2], Len(s)) + 1, MinOf(MaxOf(op[2], op[3]), Len(s)))

\* maps as key-ordered sequences of <<k, v>>
MapOp(E, kty, m, op) ==
  LET o == op[1]
      without(k) == SelectSeq(m, LAMBDA e : e[1] # k)
  IN
  CASE o = "mi" -> NormMap(E, kty, Append(without(op[2]), <<op[2], op[3]>>))
    [] o = "mr" -> without(op[2])
    [] o = "cl" -> <<>>
SetOp(E, ty, s, op) ==
  LET o == op[1]
      without(x) == SelectSeq(s, LAMBDA e : e # x)
  IN
  CASE o = "si" -> NormSet(E, ty, Append(without(op[2]), op[2]))
    [] o = "sr" -> without(op[2])
    [] o = "cl" -> <<>>

Logical(E, ty, ops) ==
  CASE ty.k = "map" -> FoldLeft(LAMBDA m, op : MapOp(E, ty.key, m, op), <<>>, ops)
    [] ty.k = "set" -> FoldLeft(LAMBDA s, op : SetOp(E, ty.t, s, op), <<>>, ops)
    [] OTHER -> LET s == FoldLeft(SeqOp, <<>>, ops) IN
                IF ty.k = "seq" /\ ty.c = "heap" THEN NormHeap(E, ty.t, s) ELSE s

(***************************************************************************)
(* Ring-buffer deque: physical state and what the encoder iterates.        *)
(***************************************************************************)
RingLogical(r) == [i \in 1..r.len |-> r.buf[((r.head + i - 1) % Len(r.buf)) + 1]]
\* the two physical slices (as_slices): from head to the end of the buffer, then the wrap-around
RingSlices(r) ==
  LET cap == Len(r.buf)
      first == MinOf(r.len, cap - r.head)
  IN << [i \in 1..first |-> r.buf[r.head + i]], [i \in 1..(r.len - first) |-> r.buf[i]] >>
RingPushBack(r, x) == [r EXCEPT !.buf[((r.head + r.len) % Len(r.buf)) + 1] = x, !.len = @ + 1]
RingPushFront(r, x) ==
  LET h == (r.head + Len(r.buf) - 1) % Len(r.buf) IN [r EXCEPT !.buf[h + 1] = x, !.head = h, !.len = @ + 1]
RingPopBack(r) == [r EXCEPT !.len = @ - 1]
RingPopFront(r) == [r EXCEPT !.head = (@ + 1) % Len(r.buf), !.len = @ - 1]
RingMakeContiguous(r) == [buf |-> [i \in 1..Len(r.buf) |-> IF i <= r.len THEN RingLogical(r)[i] ELSE 0], head |-> 0, len |-> r.len]
\* grow to twice the capacity keeping the head offset (elements after the wrap move up)
RingGrow(r) == [buf |-> [i \in 1..(2 * Len(r.buf)) |->
                           LET j == i - 1 - r.head IN
                           IF j >= 0 /\ j < r.len THEN RingLogical(r)[j + 1] ELSE 0],
                head |-> r.head, len |-> r.len]

(***************************************************************************)
(* Bit vector stored in W-bit words with a head offset inside the first    *)
(* word; words hold garbage outside the live region.                       *)
(***************************************************************************)
\* logical bits of a store [bits (flat sequence of all stored bits), head, len]
BitsLogical(b) == SubSeq(b.bits, b.head + 1, b.head + b.len)
=============================================================================
