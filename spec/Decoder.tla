------------------------------- MODULE Decoder -------------------------------
(***************************************************************************)
(* IMPLEMENTATION-SHAPED LAYER: the decoder as a stack machine whose steps *)
(* are the calls it makes on its Input - read, descend_ref, ascend_ref,    *)
(* on_before_alloc_mem - with the crate's input wrappers (CountedInput,    *)
(* the depth limiter, MemTrackingInput) applied to every forwarded call,   *)
(* and a ledger of the heap the partially built value holds.               *)
(*                                                                         *)
(* The machine follows the code, not the ideal:                            *)
(*   - compact integers: one read for the prefix byte, one for the rest    *)
(*     (PrefixInput re-injects the prefix);                                *)
(*   - Vec<primitive>: remaining-length guard when the length is known,    *)
(*     then chunks of at most ChunkBytes: announce, reserve, read          *)
(*     (read_vec_from_u8s / decode_vec_chunked); no descend;               *)
(*   - Vec<T>: descend, then per chunk announce + reserve and the elements *)
(*     one by one, ascend (decode_vec_from_items);                         *)
(*   - maps, sets, lists: count, descend, one announcement for the whole   *)
(*     collection (node estimate), elements, ascend;                       *)
(*   - Box/Rc/Arc: descend, announce size_of, allocate, decode in place,   *)
(*     ascend;  arrays: one bulk read for primitives, else element-wise;   *)
(*   - bit sequences: count, 2^29-1 cap, words in bulk, truncate.          *)
(* MC_Decoder checks that this machine refines the requirement layer       *)
(* (Dec, the limit equations, the envelopes of Limits) on all short        *)
(* inputs.  ChunkBytes scales MAX_PREALLOCATION (16 KiB) down and CMax     *)
(* scales u64::MAX down so that chunking and saturation are reachable.     *)
(***************************************************************************)
EXTENDS Limits

CONSTANTS ChunkBytes, CMax,
          Variant    \* "faithful", or a named deviation used by bin/selftest to show the invariants are not vacuous:
                     \* "depth_ge" (limit test >=), "vec_no_ascend" (missing ascend after a vector),
                     \* "reserve_all" (reserve the claimed count at once), "count_wrap" (counter wraps),
                     \* "mem_gt" (memory limit test >), "bool_any" (any non-zero byte is true),
                     \* "list_no_descend", "box_no_announce", "unk_single_alloc" (unknown-length input: whole claimed
                     \* vector allocated at once), "rest_after_chunk" (after the first chunk has arrived the whole remaining
                     \* claimed length is reserved), "zst_one_byte" (zero-sized elements announced as one byte each);
                     \* and one deviation that keeps every property and must be ACCEPTED:
                     \* "bulk_no_guard" (the up-front remaining-length guard removed: chunking still bounds the heap)

Dummy == [k |-> "unit", sz |-> 0]
\* the code's saturating arithmetic on usize, scaled to TLC's integers (Huge stands for "beyond any limit in use")
SatMul(a, b) == IF a = 0 \/ b = 0 THEN 0 ELSE IF a >= Huge \/ b >= Huge \/ a > Huge \div b THEN Huge ELSE a * b
SatAdd(a, b) == IF a >= Huge - b THEN Huge ELSE a + b
Fr(op, t, n, x) == [op |-> op, t |-> t, n |-> n, x |-> x]

\* ---- machine state is one record m; cfg is fixed per behaviour
\* cfg: [E, ty, inp, known, dlim, mlim, counted]   (limits -1 = wrapper absent)
InitM(cfg) == [pos |-> 0, ks |-> <<Fr("dec", cfg.ty, 0, 0)>>, vs |-> <<>>,
               depth |-> 0, dmax |-> 0, used |-> 0, nal |-> 0, count |-> 0,
               heap |-> 0, hmax |-> 0, status |-> "run", why |-> ""]

FailM(m, why) == [m EXCEPT !.status = "err", !.why = why]
Pop(m) == [m EXCEPT !.ks = Tail(@)]
PushV(m, v) == [m EXCEPT !.vs = <<v>> \o @]
\* replace the top frame by frames fs (first = new top)
Cont(m, fs) == [m EXCEPT !.ks = fs \o Tail(@)]
TopV(m) == m.vs[1]
DropV(m, n) == [m EXCEPT !.vs = SubSeq(@, n + 1, Len(@))]

\* ---- Input calls as seen through the wrapper stack
CanRead(cfg, m, n) == m.pos + n <= Len(cfg.inp)
Rd(cfg, m, n) == [m EXCEPT !.pos = @ + n,
                           !.count = IF ~cfg.counted THEN @
                                     ELSE IF Variant = "count_wrap" THEN (@ + n) % (CMax + 1)
                                     ELSE MinOf(@ + n, CMax)]
Desc(cfg, m) ==
  LET m1 == [m EXCEPT !.depth = @ + 1, !.dmax = MaxOf(@, m.depth + 1)] IN
  IF cfg.dlim # -1 /\ (IF Variant = "depth_ge" THEN m1.depth >= cfg.dlim ELSE m1.depth > cfg.dlim)
  THEN FailM(m1, "depth") ELSE m1
Asc(m) == [m EXCEPT !.depth = @ - 1]
Alloc(cfg, m, n) ==
  LET m1 == [m EXCEPT !.used = SatAdd(@, n), !.nal = @ + 1] IN
  IF cfg.mlim # -1 /\ (IF Variant = "mem_gt" THEN m1.used > cfg.mlim ELSE m1.used >= cfg.mlim)
  THEN FailM(m1, "mem") ELSE m1
Hold(m, n) == [m EXCEPT !.heap = SatAdd(@, n), !.hmax = MaxOf(@, SatAdd(m.heap, n))]

Bytes(cfg, a, n) == SubSeq(cfg.inp, a + 1, a + n)
ChunkLen(sz) == IF sz = 0 THEN Huge ELSE MaxOf(1, ChunkBytes \div sz)
\* node estimate the code announces for a tree of n entries of size esz (btree_utils.rs)
TreeEst(n, esz) == IF n = 0 THEN 0
                   ELSE LET leaf == ((12 + 11 * esz + 7) \div 8) * 8      \* size_of::<(usize, u16, u16, [T; 11])>() for align <= 8
                            nodes == n \div 10
                        IN IF nodes = 0 THEN leaf ELSE SatMul(nodes, leaf + 96)

\* ---- one step per frame kind -------------------------------------------------------------

\* read a compact count/value of width W: prefix byte, then the rest; f(v digits) builds the continuation
StepCompactPrefix(cfg, m, W, after) ==
  IF ~CanRead(cfg, m, 1) THEN FailM(m, "data")
  ELSE Cont(Rd(cfg, m, 1), <<Fr("crest", Dummy, W, m.pos)>> \o after)
StepCompactRest(cfg, m, fr) ==
  LET c == CompactDec(fr.n, cfg.inp, fr.x) IN
  IF ~c.ok THEN FailM(m, "data")
  ELSE PushV(Pop(Rd(cfg, m, c.p - m.pos)), c.v)

StepDec(cfg, m, t) ==
  CASE t.k = "named" -> Cont(m, <<Fr("dec", cfg.E[t.n], 0, 0)>>)
    [] t.k = "int" ->
         IF CanRead(cfg, m, t.w) THEN PushV(Pop(Rd(cfg, m, t.w)), Bytes(cfg, m.pos, t.w)) ELSE FailM(m, "data")
    [] t.k = "nonzero" ->
         IF CanRead(cfg, m, t.w) /\ ~IsZeroDig(Bytes(cfg, m.pos, t.w))
         THEN PushV(Pop(Rd(cfg, m, t.w)), Bytes(cfg, m.pos, t.w)) ELSE FailM(m, "data")
    [] t.k = "unit" -> PushV(Pop(m), <<>>)
    [] t.k = "bool" ->
         IF CanRead(cfg, m, 1) /\ (Variant = "bool_any" \/ cfg.inp[m.pos + 1] \in {0, 1})
         THEN PushV(Pop(Rd(cfg, m, 1)), cfg.inp[m.pos + 1] # 0) ELSE FailM(m, "data")
    [] t.k = "optbool" ->
         IF CanRead(cfg, m, 1) /\ cfg.inp[m.pos + 1] \in {0, 1, 2}
         THEN LET b == cfg.inp[m.pos + 1] IN
              PushV(Pop(Rd(cfg, m, 1)), IF b = 0 THEN <<>> ELSE IF b = 1 THEN <<TRUE>> ELSE <<FALSE>>)
         ELSE FailM(m, "data")
    [] t.k = "compact" -> StepCompactPrefix(cfg, m, t.w, <<>>)
    [] t.k = "option" ->
         IF ~CanRead(cfg, m, 1) THEN FailM(m, "data")
         ELSE LET b == cfg.inp[m.pos + 1] IN
              IF b = 0 THEN PushV(Pop(Rd(cfg, m, 1)), <<>>)
              ELSE IF b = 1 THEN Cont(Rd(cfg, m, 1), <<Fr("dec", t.t, 0, 0), Fr("some", Dummy, 0, 0)>>)
              ELSE FailM(m, "data")
    [] t.k = "result" ->
         IF ~CanRead(cfg, m, 1) THEN FailM(m, "data")
         ELSE LET b == cfg.inp[m.pos + 1] IN
              IF b = 0 THEN Cont(Rd(cfg, m, 1), <<Fr("dec", t.t, 0, 0), Fr("okv", Dummy, 0, 0)>>)
              ELSE IF b = 1 THEN Cont(Rd(cfg, m, 1), <<Fr("dec", t.e, 0, 0), Fr("errv", Dummy, 0, 0)>>)
              ELSE FailM(m, "data")
    [] t.k = "enum" ->
         IF ~CanRead(cfg, m, 1) \/ ~\E i \in 1..Len(t.vs) : t.vs[i].i = cfg.inp[m.pos + 1] THEN FailM(m, "data")
         ELSE LET i == CHOOSE i \in 1..Len(t.vs) : t.vs[i].i = cfg.inp[m.pos + 1]
                  n == Len(t.vs[i].ts)
              IN Cont(Rd(cfg, m, 1), [j \in 1..n |-> Fr("dec", t.vs[i].ts[j], 0, 0)] \o <<Fr("enum", Dummy, n, i)>>)
    [] t.k = "tuple" ->
         Cont(m, [j \in 1..Len(t.ts) |-> Fr("dec", t.ts[j], 0, 0)] \o <<Fr("tuple", Dummy, Len(t.ts), 0)>>)
    [] t.k = "duration" ->
         Cont(m, <<Fr("dec", [k |-> "int", w |-> 8, s |-> FALSE, b |-> TRUE, sz |-> 8], 0, 0),
                   Fr("dec", [k |-> "int", w |-> 4, s |-> FALSE, b |-> TRUE, sz |-> 4], 0, 0),
                   Fr("tuple", Dummy, 2, 0), Fr("durchk", Dummy, 0, 0)>>)
    [] t.k = "ptr" ->
         IF IsHeapPtr(t)
         THEN LET m1 == Desc(cfg, m) IN
              IF m1.status # "run" THEN m1
              ELSE Cont(m1, <<Fr("boxalloc", t, 0, 0), Fr("dec", t.t, 0, 0), Fr("ascend", Dummy, 0, 0)>>)
         ELSE Cont(m, <<Fr("dec", t.t, 0, 0)>>)
    [] t.k = "array" ->
         LET rt == Resolve(cfg.E, t.t) IN
         IF rt.k = "int" /\ rt.b
         THEN \* one bulk read of the whole array
              IF CanRead(cfg, m, t.n * rt.w)
              THEN PushV(Pop(Rd(cfg, m, t.n * rt.w)), [j \in 1..t.n |-> Bytes(cfg, m.pos + (j - 1) * rt.w, rt.w)])
              ELSE FailM(m, "data")
         ELSE Cont(PushV(m, <<>>), <<Fr("elems", t.t, t.n, 0)>>)
    [] t.k \in {"seq", "str", "map", "set", "bits"} ->
         StepCompactPrefix(cfg, m, 4, <<Fr("len", t, 0, 0)>>)

\* the count has been decoded (on the value stack)
StepLen(cfg, m0, t) ==
  LET dig == TopV(m0)
      n == ToNat(dig)
      m == DropV(m0, 1)
  IN
  CASE t.k \in {"seq", "str"} /\ (t.k = "str" \/ (BulkElems(cfg.E, t) /\ t.c # "list")) ->
         \* read_vec_from_u8s: guard only when the input knows its length
         LET w == IF t.k = "str" THEN 1 ELSE Resolve(cfg.E, t.t).w IN
         IF Variant # "bulk_no_guard" /\ cfg.known /\ (n = Huge \/ n > (Len(cfg.inp) - m.pos) \div w) THEN FailM(m, "data")
         ELSE IF Variant = "unk_single_alloc" /\ ~cfg.known
         THEN \* one allocation for the claimed count, then one read
              LET m1 == Hold(Alloc(cfg, m, SatMul(n, w)), SatMul(n, w)) IN
              IF m1.status # "run" THEN m1
              ELSE IF n = Huge \/ ~CanRead(cfg, m1, n * w) THEN FailM(m1, "data")
              ELSE Cont(PushV(Rd(cfg, m1, n * w), [j \in 1..n |-> Bytes(cfg, m1.pos + (j - 1) * w, w)]), <<Fr("seqfin", t, 0, 0)>>)
         ELSE Cont(PushV(m, <<>>), <<Fr("bulk", t, n, w), Fr("seqfin", t, 0, 0)>>)
    [] t.k = "seq" /\ (~BulkElems(cfg.E, t) \/ t.c = "list") ->
         IF t.c = "list"
         THEN LET m1 == IF Variant = "list_no_descend" THEN [m EXCEPT !.depth = @ + 1] ELSE Desc(cfg, m) IN
              IF m1.status # "run" THEN m1
              ELSE LET node == ((16 + ElemSize(cfg.E, t.t) + 7) \div 8) * 8 IN       \* size_of::<(usize, usize, T)>()
                   LET m2 == Alloc(cfg, m1, SatMul(n, node)) IN
                   IF m2.status # "run" THEN m2
                   ELSE Cont(PushV(m2, <<>>), <<Fr("nodes", t.t, n, 16 + ElemSize(cfg.E, t.t)), Fr("ascend", Dummy, 0, 0), Fr("seqfin", t, 0, 0)>>)
         ELSE IF ZeroElems(cfg.E, t) /\ ZDepth(cfg.E, Resolve(cfg.E, t.t)) = 0
         THEN \* elements that take no input and make no Input calls: descend, one (empty) chunk
              \* announcement if there is any element, the loop, ascend - collapsed into one step
              LET m1 == Desc(cfg, m) IN
              IF m1.status # "run" THEN m1
              ELSE LET total == SatMul(n, IF Variant = "zst_one_byte" THEN MaxOf(1, ElemSize(cfg.E, t.t)) ELSE ElemSize(cfg.E, t.t))      \* chunk announcements add up to count * size_of::<T>():
                       m2 == IF IsZeroDig(dig) THEN m1               \* nothing bounds it when elements take no input (known finding C09)
                             ELSE Hold(Alloc(cfg, m1, total), total)
                   IN IF m2.status # "run" THEN m2 ELSE Pop(PushV(Asc(m2), [rep |-> dig]))
         ELSE LET m1 == Desc(cfg, m) IN
              IF m1.status # "run" THEN m1
              ELSE Cont(PushV(m1, <<>>), <<Fr("chunks", t.t, n, 0)>>
                                          \o (IF Variant = "vec_no_ascend" THEN <<>> ELSE <<Fr("ascend", Dummy, 0, 0)>>)
                                          \o <<Fr("seqfin", t, 0, 0)>>)
    [] t.k \in {"map", "set"} ->
         LET m1 == Desc(cfg, m) IN
         IF m1.status # "run" THEN m1
         ELSE LET m2 == Alloc(cfg, m1, IF n = Huge THEN Huge ELSE TreeEst(n, t.esz)) IN
              IF m2.status # "run" THEN m2
              ELSE LET et == IF t.k = "map" THEN [k |-> "tuple", ts |-> <<t.key, t.val>>, sz |-> t.esz] ELSE t.t IN
                   Cont(PushV(m2, <<>>), <<Fr("nodes", et, n, 2 * t.esz + 8), Fr("ascend", Dummy, 0, 0), Fr("seqfin", t, 0, 0)>>)
    [] t.k = "bits" ->
         IF n > MaxBits THEN FailM(m, "data")
         ELSE LET words == BitWords(n, t.w) IN
              IF cfg.known /\ words > (Len(cfg.inp) - m.pos) \div t.w THEN FailM(m, "data")
              ELSE Cont(PushV(PushV(m, dig), <<>>), <<Fr("bulk", t, words, t.w), Fr("bitsfin", t, m.pos, 0)>>)

\* bulk chunks of fixed-width items: announce, reserve, read
StepBulk(cfg, m, fr) ==
  IF fr.n = 0 THEN Pop(m)
  ELSE LET w == fr.x
           c == MinOf(ChunkLen(w), fr.n)
           m1 == Alloc(cfg, m, c * w)
       IN IF m1.status # "run" THEN m1
          ELSE LET m2 == Hold(m1, c * w) IN
               IF ~CanRead(cfg, m2, c * w) THEN FailM(m2, "data")
               ELSE LET items == [j \in 1..c |-> Bytes(cfg, m2.pos + (j - 1) * w, w)]
                        m3 == [Rd(cfg, m2, c * w) EXCEPT !.vs[1] = @ \o items]
                        m4 == IF Variant = "rest_after_chunk" THEN Hold(m3, SatMul(fr.n - c, w)) ELSE m3
                    IN Cont(m4, <<Fr("bulk", fr.t, fr.n - c, w)>>)

\* element-wise chunks: announce + reserve one chunk, then decode its elements
StepChunks(cfg, m, fr) ==
  IF fr.n = 0 THEN Pop(m)
  ELSE LET sz == ElemSize(cfg.E, fr.t)
           c == IF Variant = "reserve_all" THEN fr.n ELSE MinOf(ChunkLen(sz), fr.n)
           m1 == Alloc(cfg, m, IF c = Huge THEN 0 ELSE c * sz)
       IN IF m1.status # "run" THEN m1
          ELSE Cont(Hold(m1, IF c = Huge THEN (IF sz = 0 THEN 0 ELSE Huge) ELSE c * sz),
                    <<Fr("elems", fr.t, c, 0), Fr("chunks", fr.t, IF fr.n = Huge THEN Huge ELSE fr.n - c, 0)>>)

\* n elements, one after the other, appended to the list on the value stack
StepElems(cfg, m, fr) ==
  IF fr.n = 0 THEN Pop(m)
  ELSE Cont(m, <<Fr("dec", fr.t, 0, 0), Fr("append", Dummy, 0, 0), Fr("elems", fr.t, IF fr.n = Huge THEN Huge ELSE fr.n - 1, 0)>>)

\* node-based collections: one node allocation per element actually decoded
StepNodes(cfg, m, fr) ==
  IF fr.n = 0 THEN Pop(m)
  ELSE Cont(m, <<Fr("dec", fr.t, 0, 0), Fr("append", Dummy, fr.x, 0), Fr("nodes", fr.t, IF fr.n = Huge THEN Huge ELSE fr.n - 1, fr.x)>>)

StepFrame(cfg, m) ==
  LET fr == Head(m.ks) IN
  CASE fr.op = "dec" -> StepDec(cfg, m, fr.t)
    [] fr.op = "crest" -> StepCompactRest(cfg, m, fr)
    [] fr.op = "len" -> StepLen(cfg, m, fr.t)
    [] fr.op = "bulk" -> StepBulk(cfg, m, fr)
    [] fr.op = "chunks" -> StepChunks(cfg, m, fr)
    [] fr.op = "elems" -> StepElems(cfg, m, fr)
    [] fr.op = "nodes" -> StepNodes(cfg, m, fr)
    [] fr.op = "append" -> LET x == m.vs[1] IN Hold(Pop([m EXCEPT !.vs = <<Append(m.vs[2], x)>> \o SubSeq(@, 3, Len(@))]), fr.n)
    [] fr.op = "some" -> Pop([m EXCEPT !.vs[1] = <<@>>])
    [] fr.op = "okv" -> Pop([m EXCEPT !.vs[1] = [ok |-> @]])
    [] fr.op = "errv" -> Pop([m EXCEPT !.vs[1] = [err |-> @]])
    [] fr.op = "tuple" ->
         Pop([m EXCEPT !.vs = << [j \in 1..fr.n |-> m.vs[fr.n + 1 - j]] >> \o SubSeq(@, fr.n + 1, Len(@))])
    [] fr.op = "enum" ->
         Pop([m EXCEPT !.vs = << [i |-> fr.x, fs |-> [j \in 1..fr.n |-> m.vs[fr.n + 1 - j]]] >> \o SubSeq(@, fr.n + 1, Len(@))])
    [] fr.op = "durchk" -> IF DigLess(m.vs[1][2], Billion) THEN Pop(m) ELSE FailM(m, "data")
    [] fr.op = "boxalloc" ->
         LET m1 == IF Variant = "box_no_announce" THEN m ELSE Alloc(cfg, m, fr.t.tsz) IN
         IF m1.status # "run" THEN m1 ELSE Pop(Hold(m1, fr.t.tsz))
    [] fr.op = "ascend" -> Pop(Asc(m))
    [] fr.op = "seqfin" ->
         LET t == fr.t  v == m.vs[1] IN
         CASE t.k = "str" -> IF Utf8Valid([j \in 1..Len(v) |-> v[j][1]]) THEN Pop([m EXCEPT !.vs[1] = [j \in 1..Len(v) |-> v[j][1]]]) ELSE FailM(m, "data")
           [] t.k = "map" -> Pop([m EXCEPT !.vs[1] = NormMap(cfg.E, t.key, v)])
           [] t.k = "set" -> Pop([m EXCEPT !.vs[1] = NormSet(cfg.E, t.t, v)])
           [] t.k = "seq" /\ t.c = "heap" -> Pop([m EXCEPT !.vs[1] = NormHeap(cfg.E, t.t, v)])
           [] t.k = "seq" /\ t.c = "list" /\ ZeroElems(cfg.E, t) -> Pop([m EXCEPT !.vs[1] = [rep |-> FromNat(Len(v), 4)]])
           [] OTHER -> Pop(m)
    [] fr.op = "bitsfin" ->
         \* words are on top, the bit count below: truncate to the logical bits
         LET nb == ToNat(m.vs[2])  t == fr.t  start == fr.n IN
         Pop([m EXCEPT !.vs = << [i \in 1..nb |-> BitAt(cfg.inp, m.pos - BitWords(nb, t.w) * t.w, i - 1, t.w, t.o)] >> \o SubSeq(@, 3, Len(@))])

Step(cfg, m) ==
  IF m.ks = <<>> THEN [m EXCEPT !.status = "ok"] ELSE StepFrame(cfg, m)
=============================================================================
