------------------------------- MODULE Derive -------------------------------
(***************************************************************************)
(* The derive macros as a function from type DEFINITIONS to accept/reject  *)
(* plus a wire layout (properties C05, C13, C17).                          *)
(*                                                                         *)
(* A definition is a record:                                               *)
(*   struct  [kind |-> "struct", shape |-> "named"|"tuple"|"unit",         *)
(*            transparent |-> BOOLEAN, fs |-> fields]                      *)
(*   enum    [kind |-> "enum", vs |-> variants] with variant               *)
(*            [src |-> "none"|"attr"|"disc", val |-> Nat, skip |-> BOOLEAN,*)
(*             fs |-> fields]                                              *)
(*   field   [ty |-> field type name, attr |-> "none"|"skip"|"compact"|    *)
(*            "encoded_as"|"skip+compact"|"compact+encoded_as"]            *)
(*   bigenum [kind |-> "bigenum", n |-> number of unit variants]           *)
(*   union / compactas shapes for the remaining compile-time rules         *)
(*                                                                         *)
(* REQUIREMENT                                                             *)
(*   Layout(def)       the descriptor of the derived wire format:          *)
(*                     non-skipped fields in declaration order, each in    *)
(*                     its selected representation; enums one index byte   *)
(*   VariantIndex      index attribute, else explicit discriminant, else   *)
(*                     position among the NON-SKIPPED variants             *)
(*   Valid(def)        what the derive must accept                         *)
(*   RustValid(def)    what rustc accepts regardless of the derive         *)
(* IMPLEMENTATION-SHAPED                                                   *)
(*   ImplOverrides     which of the four mutually-defined Encode methods   *)
(*                     the generated impl defines; EntryTerminates follows *)
(*                     the default-method cycle                            *)
(*   ImplMel           the derive's MaxEncodedLen formula                  *)
(***************************************************************************)
EXTENDS TypeLib

\* "gen" is a generic type parameter T of the definition, instantiated with u16 when the program is compiled
FieldTypes == {"u8", "u16", "u32", "u64", "bool", "vecu8", "optu16", "str", "gen", "vecgen"}
IntWidth(t) == CASE t = "u8" -> 1 [] t \in {"u16", "gen"} -> 2 [] t = "u32" -> 4 [] t = "u64" -> 8
IsIntTy(t) == t \in {"u8", "u16", "u32", "u64", "gen"}
FieldTy(t) ==
  CASE IsIntTy(t) -> TInt(IntWidth(t), FALSE)
    [] t = "bool" -> TBool
    [] t = "vecu8" -> TSeq(U8, "vec")
    [] t = "vecgen" -> TSeq(U16, "vec")
    [] t = "optu16" -> TOption(U16)
    [] t = "str" -> TStr

Skipped(fld) == fld.attr = "skip"
\* the representation a non-skipped field is encoded in ("encoded_as_wide": encoded_as naming a type that is not the
\* field's compact representation - here the integer widened to eight bytes)
Repr(fld) == CASE fld.attr \in {"compact", "encoded_as"} -> TCompact(IntWidth(fld.ty))
               [] fld.attr = "encoded_as_wide" -> TInt(8, FALSE)
               [] OTHER -> FieldTy(fld.ty)
\* what the generated encoder writes for a field: the multi-field path has one arm for compact and one for encoded_as
\* (EncMode = "merged_arms": both written through the compact representation, as one seeded change did)
ImplEncRepr(emode, fld) ==
  IF emode = "merged_arms" /\ fld.attr \in {"encoded_as", "encoded_as_wide"} THEN TCompact(IntWidth(fld.ty)) ELSE Repr(fld)
EncArmsSound(emode, fld) == ImplEncRepr(emode, fld) = Repr(fld)
Encoded(fs) == LET keep == SelectSeq(fs, LAMBDA x : ~Skipped(x)) IN [i \in 1..Len(keep) |-> Repr(keep[i])]

AttrOK(fld) == /\ fld.attr \in {"none", "skip", "compact", "encoded_as", "encoded_as_wide"}        \* at most one of them (anything else is a conflict)
               /\ fld.attr \in {"compact", "encoded_as", "encoded_as_wide"} => IsIntTy(fld.ty)
FieldsOK(fs) == \A i \in 1..Len(fs) : AttrOK(fs[i])

NonSkipped(def) == { k \in 1..Len(def.vs) : ~def.vs[k].skip }
Pos(def, k) == Cardinality({ j \in NonSkipped(def) : j < k })
VariantIndex(def, k) ==
  LET vr == def.vs[k] IN
  CASE vr.src = "attr" -> vr.val
    [] vr.src = "disc" -> vr.val
    [] vr.src = "none" -> Pos(def, k)

\* Rust's own discriminant numbering (explicit, else previous + 1, first 0): over ALL variants
RECURSIVE RustDisc(_, _)
RustDisc(def, k) == IF def.vs[k].src = "disc" THEN def.vs[k].val
                    ELSE IF k = 1 THEN 0 ELSE RustDisc(def, k - 1) + 1
RustValid(def) ==
  CASE def.kind = "enum" ->
         /\ \A a, b \in 1..Len(def.vs) : a # b => RustDisc(def, a) # RustDisc(def, b)
         \* explicit discriminants next to data-carrying variants need a primitive repr: the generator writes #[repr(u8)],
         \* under which every discriminant must fit in a byte
         /\ ((\E k \in 1..Len(def.vs) : def.vs[k].src = "disc") /\ (\E k \in 1..Len(def.vs) : Len(def.vs[k].fs) > 0))
               => \A k \in 1..Len(def.vs) : RustDisc(def, k) <= 255
    [] OTHER -> TRUE

Valid(def) ==
  CASE def.kind = "struct" ->
         /\ FieldsOK(def.fs)
         /\ def.transparent => Len(def.fs) = 1
    [] def.kind = "enum" ->
         /\ \A k \in 1..Len(def.vs) : FieldsOK(def.vs[k].fs)
         /\ Cardinality(NonSkipped(def)) <= 256
         /\ \A k \in NonSkipped(def) : VariantIndex(def, k) <= 255
         /\ \A a, b \in NonSkipped(def) : a # b => VariantIndex(def, a) # VariantIndex(def, b)
    [] def.kind = "bigenum" ->          \* n unit variants with implicit positions; optionally an index attribute on the first
         /\ (IF "skip_first" \in DOMAIN def THEN def.n - 1 ELSE def.n) <= 256      \* encodable variants
         /\ "first_attr" \in DOMAIN def => def.first_attr <= 255 /\ def.first_attr \notin 1..(def.n - 1)
    [] def.kind = "union" -> FALSE
    [] def.kind = "compactas" -> def.shape \in {"struct", "tuple"} /\ def.nonskipped = 1

Layout(def) ==
  CASE def.kind = "struct" -> [k |-> "tuple", ts |-> Encoded(def.fs), sz |-> 0]
    [] def.kind = "enum" ->
         LET ks == SetToSortSeq(NonSkipped(def), <) IN
         [k |-> "enum", sz |-> 0,
          vs |-> [j \in 1..Len(ks) |-> [i |-> VariantIndex(def, ks[j]), ts |-> Encoded(def.vs[ks[j]].fs)]]]

(***************************************************************************)
(* The four Encode methods are defined in terms of each other:             *)
(*   encode -> encode_to -> using_encoded -> encode,  encoded_size ->      *)
(*   encode_to.  A derived impl overrides some of them.                    *)
(***************************************************************************)
Methods == {"encode", "encode_to", "using_encoded", "encoded_size"}
DefaultCallee(m) == CASE m = "encode" -> "encode_to" [] m = "encode_to" -> "using_encoded"
                      [] m = "using_encoded" -> "encode" [] m = "encoded_size" -> "encode_to"
ImplOverrides(mode, def) ==
  CASE def.kind = "struct" /\ Len(Encoded(def.fs)) = 1 -> Methods \ {"encoded_size"}    \* single-field forwarding
    [] def.kind = "enum" /\ NonSkipped(def) = {} -> IF mode = "legacy" THEN {} ELSE {"encode_to"}
    [] OTHER -> {"encode_to"}
RECURSIVE Reaches(_, _, _)
Reaches(ov, m, fuel) == m \in ov \/ (fuel > 0 /\ Reaches(ov, DefaultCallee(m), fuel - 1))
EntryTerminates(mode, def) == \A m \in Methods : Reaches(ImplOverrides(mode, def), m, 4)

(***************************************************************************)
(* In-place decoding of #[repr(transparent)] structs (quote_decode_into):  *)
(* the derive forwards `decode_into` to every field through a pointer cast *)
(* - the FAST PATH - unless some field carries an attribute that changes   *)
(* how it is decoded.  On the fast path each field is read as its DECLARED *)
(* type, field by field, including zero-sized ones (a zero-sized type may  *)
(* still have a non-empty encoding).  FastLayout is what the fast path     *)
(* reads; it must be the layout.  IntoMode names the slips that seeded     *)
(* changes made:                                                           *)
(*   "ignore_compact"  the guard forgets #[codec(compact)]                 *)
(*   "demorgan"        the guard is "no field is plain" instead of "some   *)
(*                     field is not plain"                                 *)
(*   "skip_zst"        zero-sized fields are not decoded on the fast path  *)
(***************************************************************************)
PlainField(fld) == fld.attr = "none"
FastPathTaken(imode, def) ==
  /\ def.kind = "struct" /\ def.transparent /\ Len(def.fs) > 0
  /\ CASE imode = "ignore_compact" -> \A i \in 1..Len(def.fs) : def.fs[i].attr \notin {"encoded_as", "skip"}
       [] imode = "demorgan" -> \E i \in 1..Len(def.fs) : PlainField(def.fs[i])
       [] OTHER -> \A i \in 1..Len(def.fs) : PlainField(def.fs[i])
\* zero-sized declared types of the grammar ("unit1" is a field-less one-variant enum: no memory, one byte on the wire)
IsZstTy(t) == t \in {"unit0", "unit1"}
FastFieldTy(t) == CASE t = "unit0" -> TUnit
                    [] t = "unit1" -> TEnum(<<TVariant(0, <<>>)>>)
                    [] OTHER -> FieldTy(t)
FastLayout(imode, def) ==
  LET keep == IF imode = "skip_zst" THEN SelectSeq(def.fs, LAMBDA x : ~IsZstTy(x.ty)) ELSE def.fs
  IN [k |-> "tuple", ts |-> [i \in 1..Len(keep) |-> FastFieldTy(keep[i].ty)], sz |-> 0]
\* layout of a transparent struct whose fields may be zero-sized types
TLayoutField(fld) == IF fld.attr \in {"compact", "encoded_as"} THEN TCompact(IntWidth(fld.ty)) ELSE FastFieldTy(fld.ty)
TLayout(def) == LET keep == SelectSeq(def.fs, LAMBDA x : ~Skipped(x)) IN
                [k |-> "tuple", ts |-> [i \in 1..Len(keep) |-> TLayoutField(keep[i])], sz |-> 0]
FastPathSound(imode, def) == FastPathTaken(imode, def) => FastLayout(imode, def) = TLayout(def)

(***************************************************************************)
(* derive(MaxEncodedLen): sum over non-skipped fields; the bound of the    *)
(* representation type ("fixed") or of the declared field type ("legacy"). *)
(***************************************************************************)
MelOfField(mode, fld) ==
  IF mode = "legacy" THEN MaxLen(E0, FieldTy(fld.ty)) ELSE MaxLen(E0, Repr(fld))
ImplMelFields(mode, fs) ==
  LET keep == SelectSeq(fs, LAMBDA x : ~Skipped(x))
      ls == [i \in 1..Len(keep) |-> MelOfField(mode, keep[i])]
  IN IF \E i \in 1..Len(ls) : ls[i] = -1 THEN -1 ELSE FoldLeft(LAMBDA a, x : a + x, 0, ls)
ImplMel(mode, def) ==
  CASE def.kind = "struct" -> ImplMelFields(mode, def.fs)
    [] def.kind = "enum" ->
         LET ks == SetToSortSeq(NonSkipped(def), <)
             \* mode "mel_dedup" (a seeded change): one term per distinct list of field *types* - a later variant with the
             \* same types as an earlier one is dropped although its attributes give it a longer wire form
             shape(j) == LET keep == SelectSeq(def.vs[ks[j]].fs, LAMBDA x : ~Skipped(x)) IN [i \in 1..Len(keep) |-> keep[i].ty]
             lsAll == [j \in 1..Len(ks) |-> ImplMelFields(mode, def.vs[ks[j]].fs)]
             ls == IF mode = "mel_dedup"
                   THEN [j \in 1..Len(ks) |-> IF \E i \in 1..(j - 1) : shape(i) = shape(j) THEN 0 ELSE lsAll[j]]
                   ELSE lsAll
         IN IF \E j \in 1..Len(ls) : ls[j] = -1 THEN -1
            ELSE 1 + FoldLeft(LAMBDA a, x : MaxOf(a, x), 0, ls)
=============================================================================
