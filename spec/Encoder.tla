------------------------------- MODULE Encoder -------------------------------
(***************************************************************************)
(* IMPLEMENTATION-SHAPED LAYER of encoding (property C07).                 *)
(*                                                                         *)
(* 1. Method dispatch.  The four Encode methods have default bodies in     *)
(*    terms of each other (encode -> encode_to -> using_encoded -> encode, *)
(*    encoded_size -> encode_to); every implementor overrides some of      *)
(*    them.  Overrides(ty) is read off the code (impl by impl); an entry   *)
(*    point terminates iff following the defaults reaches an override.     *)
(* 2. The stream of Output calls.  Writes(E, ty, v, split) is the sequence *)
(*    of byte strings handed to Output::write / push_byte: primitives in   *)
(*    one write, sequences of bulk-capable primitives as ONE write of      *)
(*    n*w bytes (two for a deque whose ring buffer is split), everything   *)
(*    else element by element.  Whatever the granularity, the              *)
(*    concatenation must be Enc(ty, v), and the size-only computation must *)
(*    be its length.                                                       *)
(***************************************************************************)
EXTENDS Limits

CONSTANT EVariant   \* "faithful", or a slip that seeded changes made (bin/selftest: TLC must refute each):
                    \*   "deque_swapped"   the two physical slices of a deque are written second-first
                    \*   "dur_micros"      the streaming path of a duration writes microseconds
                    \*   "bits_per_byte"   the size-only computation of a bit sequence rounds to bytes, not storage words
                    \*   "single_override" a one-member tuple overrides nothing (dispatch cycles)

Methods4 == {"encode", "encode_to", "using_encoded", "encoded_size"}
Default4(m) == CASE m = "encode" -> "encode_to" [] m = "encode_to" -> "using_encoded"
                 [] m = "using_encoded" -> "encode" [] m = "encoded_size" -> "encode_to"

\* which methods the implementor of a descriptor kind overrides (besides size_hint)
Overrides(ty) ==
  CASE ty.k \in {"int", "bool", "optbool"} -> {"using_encoded"}
    [] ty.k = "unit" -> {"encode_to", "using_encoded", "encode"}
    [] ty.k \in {"option", "result", "array", "seq", "set", "map", "bits", "enum"} -> {"encode_to"}
    [] ty.k = "tuple" -> IF Len(ty.ts) = 1 THEN (IF EVariant = "single_override" THEN {} ELSE {"encode", "encode_to", "using_encoded"}) ELSE {"encode_to"}
    [] ty.k \in {"nonzero", "str", "ptr", "compact"} -> {"encode", "encode_to", "using_encoded"}
    [] ty.k = "duration" -> {"encode"}
    [] ty.k = "named" -> {"encode_to"}
RECURSIVE ReachesOverride(_, _, _)
ReachesOverride(ov, m, fuel) == m \in ov \/ (fuel > 0 /\ ReachesOverride(ov, Default4(m), fuel - 1))
DispatchTerminates(ty) == \A m \in Methods4 : ReachesOverride(Overrides(ty), m, 3)

Cat(ws) == FoldLeft(LAMBDA a, x : a \o x, <<>>, ws)
CatAll(wss) == FoldLeft(LAMBDA a, x : a \o x, <<>>, wss)     \* sequence of write sequences -> write sequence

\* split: where a deque's ring buffer wraps (number of elements in its first physical slice), only used for c = "deque"
RECURSIVE Writes(_, _, _, _)
Writes(E, ty, v, split) ==
  LET W(t, x) == Writes(E, t, x, split) IN
  CASE ty.k \in {"int", "nonzero"} -> <<v>>
    [] ty.k = "bool" -> << IF v THEN <<1>> ELSE <<0>> >>
    [] ty.k = "unit" -> <<>>
    [] ty.k = "compact" -> <<CompactEnc(v)>>                      \* written through a fixed-capacity buffer
    [] ty.k = "optbool" -> << IF Len(v) = 0 THEN <<0>> ELSE IF v[1] THEN <<1>> ELSE <<2>> >>
    [] ty.k = "option" -> IF Len(v) = 0 THEN << <<0>> >> ELSE << <<1>> >> \o W(ty.t, v[1])
    [] ty.k = "result" -> IF "ok" \in DOMAIN v THEN << <<0>> >> \o W(ty.t, v.ok) ELSE << <<1>> >> \o W(ty.e, v.err)
    [] ty.k = "seq" ->
         IF ZeroElems(E, ty) THEN <<CompactEnc(v.rep)>>
         ELSE LET pre == <<CompactEnc(FromNat(Len(v), 4))>> IN
              IF BulkElems(E, ty)
              THEN IF ty.c = "deque"
                   THEN LET s == MinOf(split, Len(v)) IN
                        IF EVariant = "deque_swapped"
                        THEN pre \o <<Cat(SubSeq(v, s + 1, Len(v)))>> \o <<Cat(SubSeq(v, 1, s))>>
                        ELSE pre \o <<Cat(SubSeq(v, 1, s))>> \o <<Cat(SubSeq(v, s + 1, Len(v)))>>     \* two slices
                   ELSE pre \o <<Cat(v)>>                                                         \* one bulk write
              ELSE pre \o CatAll([i \in 1..Len(v) |-> W(ty.t, v[i])])
    [] ty.k = "set" -> <<CompactEnc(FromNat(Len(v), 4))>> \o CatAll([i \in 1..Len(v) |-> W(ty.t, v[i])])
    [] ty.k = "str" -> <<CompactEnc(FromNat(Len(v), 4)), v>>
    [] ty.k = "map" -> <<CompactEnc(FromNat(Len(v), 4))>>
                       \o CatAll([i \in 1..Len(v) |-> W(ty.key, v[i][1]) \o W(ty.val, v[i][2])])
    [] ty.k = "array" -> IF BulkElems(E, ty) THEN <<Cat(v)>> ELSE CatAll([i \in 1..Len(v) |-> W(ty.t, v[i])])
    [] ty.k = "tuple" -> CatAll([i \in 1..Len(ty.ts) |-> W(ty.ts[i], v[i])])
    [] ty.k = "enum" -> << <<ty.vs[v.i].i>> >> \o CatAll([j \in 1..Len(ty.vs[v.i].ts) |-> W(ty.vs[v.i].ts[j], v.fs[j])])
    [] ty.k = "ptr" -> W(ty.t, v)
    [] ty.k = "bits" ->
         <<CompactEnc(FromNat(Len(v), 4))>>
         \o [q \in 1..BitWords(Len(v), ty.w) |-> [b \in 1..ty.w |-> BitsByte(v, (q - 1) * ty.w + b - 1, ty.w, ty.o)]]   \* one word per write
    [] ty.k = "duration" -> IF EVariant = "dur_micros" THEN <<v[1] \o Pad(<<>>, 4)>>      \* (sub-second part lost: any nanos < 1000)
                            ELSE <<v[1] \o v[2]>>                  \* encode() of the pair, written at once
    [] ty.k = "named" -> W(E[ty.n], v)

SizeOnly(E, ty, v, split) ==
  IF EVariant = "bits_per_byte" /\ ty.k = "bits" THEN Len(CompactEnc(FromNat(Len(v), 4))) + (Len(v) + 7) \div 8
  ELSE FoldLeft(LAMBDA a, w : a + Len(w), 0, Writes(E, ty, v, split))
=============================================================================
