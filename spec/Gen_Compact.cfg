INIT GInit
NEXT GNext
CONSTANT Tier = "quick"
CHECK_DEADLOCK FALSE
