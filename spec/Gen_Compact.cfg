INIT GInit
NEXT GNext
CONSTANT DVariant = "faithful"
CONSTANT Tier = "quick"
CHECK_DEADLOCK FALSE
