----------------------------- MODULE Gen_Compact -----------------------------
(***************************************************************************)
(* DIRECTION C for C04: TLC writes the class-boundary value family and the *)
(* (tag x top x fill x length) string family of MC_Compact as vectors; the *)
(* harness feeds each to the real encoders/decoders and logs what they     *)
(* did; Trace_Codec validates the log.                                     *)
(***************************************************************************)
EXTENDS MC_Compact, Json, IOUtils

ValVecs == UNION { { [kind |-> "val", w |-> w, v |-> d] : d \in FamilyVals(w) } : w \in {4, 8, 16} }
StrVecs == UNION { { [kind |-> "str", w |-> w, s |-> s] : s \in FamilyStrs } : w \in {1, 2, 4, 8, 16} }
Vecs == SetToSeq(ValVecs) \o SetToSeq(StrVecs)

ASSUME ndJsonSerialize(IOEnv.OUT, Vecs)
ASSUME PrintT(<<"VECTORS", Len(Vecs)>>)
GInit == mode = "done" /\ W = 0 /\ x = <<>>
GNext == UNCHANGED vars
=============================================================================
