INIT GInit
NEXT GNext
CONSTANT DVariant = "faithful"
CONSTANT Tier = "thorough"
CHECK_DEADLOCK FALSE
