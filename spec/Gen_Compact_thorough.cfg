INIT GInit
NEXT GNext
CONSTANT Tier = "thorough"
CHECK_DEADLOCK FALSE
