INIT GInit
NEXT GNext
CONSTANT Mode = "fixed"
CONSTANT IntoMode = "faithful"
CONSTANT Tier = "quick"
CHECK_DEADLOCK FALSE
