INIT GInit
NEXT GNext
CONSTANT Mode = "fixed"
CONSTANT Tier = "quick"
CHECK_DEADLOCK FALSE
