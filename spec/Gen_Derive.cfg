INIT GInit
NEXT GNext
CONSTANT Mode = "fixed"
CONSTANT IntoMode = "faithful"
CONSTANT EncMode = "faithful"
CONSTANT Tier = "quick"
CHECK_DEADLOCK FALSE
