------------------------------ MODULE Gen_Derive ------------------------------
(***************************************************************************)
(* DIRECTION C for C05 / C13 / C17: TLC enumerates type definitions over   *)
(* the bounded attribute grammar and writes, for each, the verdict of the  *)
(* specification (Valid), the wire layout with the variant indices, and -  *)
(* for definitions the derive must reject - a minimally different valid    *)
(* twin.  bin/gen_programs.py turns them into Rust sources; the compiler's *)
(* verdict and the behaviour of the compiled types go back through         *)
(* Trace_Codec.                                                            *)
(***************************************************************************)
EXTENDS MC_Derive, Json, IOUtils

\* ---- C05: definitions the derive must accept, with their layout
ValidDefs == { d \in Defs : Valid(d) }
C05Vecs == { [purpose |-> "layout", def |-> d, valid |-> TRUE, layout |-> Layout(d),
              mel |-> ImplMel("fixed", d), maxlen |-> MaxLen(E0, Layout(d))] : d \in ValidDefs }

\* ---- C17: enums over every index source, indices up to 300, with twins
XVals == {0, 1, 2, 255, 256, 300}
XUnit == { Canon([src |-> s, val |-> xv, skip |-> sk, fs |-> <<>>]) : s \in {"none", "attr", "disc"}, xv \in XVals, sk \in BOOLEAN }
XData == { Canon([src |-> s, val |-> xv, skip |-> sk, fs |-> <<[ty |-> "u8", attr |-> "none"]>>]) : s \in {"none", "attr"}, xv \in XVals, sk \in BOOLEAN }
XEnums ==
     { [kind |-> "enum", vs |-> <<a>>] : a \in XUnit \cup XData }
\cup { [kind |-> "enum", vs |-> <<a, b>>] : a \in XUnit, b \in XUnit }
\cup { [kind |-> "enum", vs |-> <<a, b, c>>] : a \in XUnit, b \in XUnit, c \in { x \in XUnit : x.val \in {0, 2, 256} } }
\cup { [kind |-> "enum", vs |-> <<a, b, c>>] : a \in XData, b \in { x \in XData : x.val \in {0, 1, 300} }, c \in { x \in XUnit : x.src # "disc" /\ x.val \in {0, 1, 255} } }
XDefs == { d \in XEnums : RustValid(d) }
Diff(a, b) == Cardinality({ k \in 1..Len(a.vs) : a.vs[k] # b.vs[k] })
\* a valid definition differing from d in exactly one variant's index source / value
TwinsOf(d) ==
  LET cands == UNION { { [d EXCEPT !.vs[k] = Canon([d.vs[k] EXCEPT !.src = s, !.val = xv])] :
                           s \in {"none", "attr"}, xv \in {0, 1, 2, 3, 7, 255} } : k \in 1..Len(d.vs) }
  IN { t \in cands : Valid(t) /\ RustValid(t) /\ Diff(d, t) = 1 }
InvalidX == { d \in XDefs : ~Valid(d) }
C17Vecs == { [purpose |-> "reject", def |-> d, valid |-> FALSE,
              twin |-> (IF TwinsOf(d) = {} THEN [kind |-> "none"] ELSE CHOOSE t \in TwinsOf(d) : TRUE)] : d \in InvalidX }
           \cup { [purpose |-> "accept", def |-> d, valid |-> TRUE, twin |-> [kind |-> "none"]] : d \in { x \in XDefs : Valid(x) } }

Out == IF IOEnv.WHAT = "layout" THEN SetToSeq(C05Vecs) ELSE SetToSeq(C17Vecs)
ASSUME ndJsonSerialize(IOEnv.OUT, Out)
ASSUME PrintT(<<"VECTORS", Len(Out)>>)
GInit == def = [kind |-> "none"] /\ v = <<>> /\ stage = "done"
GNext == UNCHANGED vars
=============================================================================
