INIT GInit
NEXT GNext
CONSTANT Mode = "fixed"
CONSTANT Tier = "thorough"
CHECK_DEADLOCK FALSE
