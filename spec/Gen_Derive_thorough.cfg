INIT GInit
NEXT GNext
CONSTANT Mode = "fixed"
CONSTANT IntoMode = "faithful"
CONSTANT EncMode = "faithful"
CONSTANT Tier = "thorough"
CHECK_DEADLOCK FALSE
