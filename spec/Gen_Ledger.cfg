INIT GInit
NEXT GNext
CONSTANT MaxN = 4
CHECK_DEADLOCK FALSE
