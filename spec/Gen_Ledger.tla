------------------------------ MODULE Gen_Ledger ------------------------------
(***************************************************************************)
(* DIRECTION C for C10: every initial state of the ledger machine (size,   *)
(* fault position, fault kind) crossed with the container shapes of the    *)
(* implementation becomes a vector; the harness builds the bytes that      *)
(* steer the instrumented element into that fault, runs the real decoder   *)
(* and logs the construction/drop ledger, which Trace_Codec validates.     *)
(***************************************************************************)
EXTENDS Naturals, Sequences, FiniteSets, Json, IOUtils, TLC, SequencesExt

CONSTANT MaxN
FaultKinds == {"exhausted", "malformed", "limit", "panic"}
\* the container's own allocation announcement is refused by a memory limit before anything is constructed
HookShapes == { <<"box", 1>>, <<"rc", 1>>, <<"arc", 1>>, <<"boxtuple", 2>>, <<"boxarray", 1>>, <<"boxarray", 4>>, <<"rcarray", 3>>,
                <<"boxtransp", 1>>, <<"boxarrtransp3", 3>>, <<"boxarraytransp", 2>> }
\* a transparent newtype whose only field is skipped: filled with its default, in place
SeqShapes == {"array", "boxarray", "rcarray", "arrayofbox", "arrayopt", "vecarray2", "arraytransp", "boxarraytransp",
              "vec", "deque", "list", "map", "vecbox", "vecvec",
              \* zero-sized elements with a destructor; elements above 256 bytes
              "arrayz", "boxarrayz", "vecarrayz2", "vecz", "listz", "arraybig", "vecbig", "dequebig"}
\* shapes with a fixed number of instrumented elements
FixedShapes == { <<"option", 1, 1>>, <<"result", 1, 1>>, <<"box", 1, 1>>, <<"rc", 1, 1>>, <<"arc", 1, 1>>,
                 <<"tuple3", 3, 3>>, <<"boxtuple", 2, 2>>, <<"nested", 3, 6>>, <<"struct3", 3, 3>>,
                 <<"enum3", 3, 3>>, <<"nestedz", 3, 6>>, <<"boxtupstruct3", 3, 3>>, <<"boxstruct3", 3, 3>>, <<"arrtupstruct", 3, 6>>,
                 <<"rctupstruct3", 3, 3>>, <<"boxtuple3", 3, 3>>, <<"arrtuple2", 3, 6>>, <<"garray3", 3, 3>>, <<"boxgarray3", 3, 3>>, <<"arcarray3", 3, 3>>, <<"optarcarr", 3, 3>>, <<"enum1", 1, 1>>, <<"boxtransp", 1, 1>>, <<"boxarrtransp3", 3, 3>> }
Total(shape, n) == IF shape \in {"vecarray2", "vecvec", "vecarrayz2"} THEN 2 * n ELSE n

Vecs ==
  LET seqv == { [shape |-> s, n |-> n, f |-> -1, kind |-> "none"] : s \in SeqShapes, n \in 0..MaxN }
              \cup { [shape |-> s, n |-> n, f |-> f, kind |-> k] :
                       s \in SeqShapes, n \in 1..MaxN, f \in 0..(2 * MaxN - 1), k \in FaultKinds }
      seqok == { v \in seqv : v.f < Total(v.shape, v.n) }
      fixv == UNION { { [shape |-> t[1], n |-> t[2], f |-> -1, kind |-> "none"] }
                      \cup { [shape |-> t[1], n |-> t[2], f |-> f, kind |-> k] : f \in 0..(t[3] - 1), k \in FaultKinds }
                      : t \in FixedShapes }
      hookv == { [shape |-> t[1], n |-> t[2], f |-> 0, kind |-> "hooklimit"] : t \in HookShapes }
      \* a transparent struct whose zero-sized companion field fails after the data field was constructed in place
      \* (f = 1 = total: the instrumented element exists, then the decode fails)
      tagv == { [shape |-> sh, n |-> 1, f |-> ff, kind |-> k] : sh \in {"boxtransptag", "rctransptag", "arraytransptag"},
                  ff \in {1}, k \in {"malformed", "exhausted"} }
              \cup { [shape |-> sh, n |-> 1, f |-> -1, kind |-> "none"] : sh \in {"boxtransptag", "rctransptag", "arraytransptag"} }
      skipv == { [shape |-> sh, n |-> 1, f |-> -1, kind |-> "none"] : sh \in {"boxtranspskip", "arraytranspskip", "rctranspskip"} }
  IN SetToSeq(seqok \cup fixv \cup hookv \cup skipv \cup tagv)

ASSUME ndJsonSerialize(IOEnv.OUT, Vecs)
ASSUME PrintT(<<"VECTORS", Len(Vecs)>>)
VARIABLE x
GInit == x = 0
GNext == UNCHANGED x
=============================================================================
