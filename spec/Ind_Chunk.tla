------------------------------ MODULE Ind_Chunk ------------------------------
(***************************************************************************)
(* UNBOUNDED check (Apalache) of the chunked reservation loop of           *)
(* decode_vec_chunked (C09): for any claimed length up to 2^32 - 1 and any *)
(* chunk length (MAX_PREALLOCATION / size_of::<T>(), at least 1), the      *)
(* capacity reserved never runs more than one chunk ahead of the elements  *)
(* actually decoded, and the loop accounts for every claimed element.      *)
(*   apalache-mc check --init=Init    --inv=Inv --length=0 Ind_Chunk.tla   *)
(*   apalache-mc check --init=IndInit --inv=Inv --length=1 Ind_Chunk.tla   *)
(***************************************************************************)
EXTENDS Integers

VARIABLES
  \* @type: Int;
  len,        \* claimed element count
  \* @type: Int;
  chunk,      \* elements per chunk
  \* @type: Int;
  undecoded,  \* num_undecoded_items
  \* @type: Int;
  filled,     \* decoded_vec.len()
  \* @type: Int;
  cap,        \* decoded_vec.capacity() after reserve_exact
  \* @type: Bool;
  failed      \* a chunk could not be read: the decode returns an error

MaxLen == 4294967295

Init ==
  /\ len \in 0..MaxLen
  /\ chunk \in 1..16384
  /\ undecoded = len /\ filled = 0 /\ cap = 0 /\ failed = FALSE

Min(a, b) == IF a <= b THEN a ELSE b

\* one iteration: reserve exactly one chunk beyond what is filled, then read it (or fail)
Iterate ==
  /\ ~failed /\ undecoded > 0
  /\ LET c == Min(chunk, undecoded) IN
     /\ cap' = IF cap >= filled + c THEN cap ELSE filled + c
     /\ \/ /\ filled' = filled + c /\ undecoded' = undecoded - c /\ failed' = FALSE
        \/ /\ failed' = TRUE /\ UNCHANGED <<filled, undecoded>>
  /\ UNCHANGED <<len, chunk>>
Done == (failed \/ undecoded = 0) /\ UNCHANGED <<len, chunk, undecoded, filled, cap, failed>>
Next == Iterate \/ Done

Inv ==
  /\ 0 <= undecoded /\ 0 <= filled /\ filled + undecoded = len /\ len <= MaxLen
  /\ 1 <= chunk /\ chunk <= 16384
  /\ cap <= filled + chunk            \* never more than one chunk ahead of the data actually read
  /\ filled <= cap \/ filled = 0

IndInit ==
  /\ len \in 0..MaxLen
  /\ chunk \in 1..16384
  /\ filled \in 0..MaxLen
  /\ undecoded = len - filled
  /\ cap \in 0..(2 * MaxLen)
  /\ failed \in BOOLEAN
  /\ Inv
=============================================================================
