------------------------------ MODULE Ind_Count ------------------------------
(***************************************************************************)
(* UNBOUNDED check (Apalache) of the counting input's invariant (C19):     *)
(* with the real constant 2^64 - 1 and reads of any size, the counter      *)
(* always equals min(bytes delivered, 2^64 - 1): it never wraps and failed *)
(* reads add nothing.  TLC explores the same machine with a scaled maximum *)
(* inside MC_Decoder (CMax = 2); here the invariant is shown inductive     *)
(* over the integers:                                                      *)
(*   apalache-mc check --init=Init    --inv=Inv --length=0 Ind_Count.tla   *)
(*   apalache-mc check --init=IndInit --inv=Inv --length=1 Ind_Count.tla   *)
(***************************************************************************)
EXTENDS Integers

VARIABLES
  \* @type: Int;
  count,
  \* @type: Int;
  delivered

Max == 18446744073709551615

Sat(x) == IF x > Max THEN Max ELSE x

Init == count = 0 /\ delivered = 0

\* a successful read of n bytes: the wrapped input hands out n bytes, the counter adds saturating
ReadOk == \E n \in Nat :
            /\ delivered' = delivered + n
            /\ count' = Sat(count + n)
\* a failed read delivers nothing and leaves the counter alone
ReadFail == UNCHANGED <<count, delivered>>

Next == ReadOk \/ ReadFail

Inv == count = Sat(delivered) /\ delivered >= 0

\* any state satisfying the invariant (assignable form)
IndInit == /\ delivered \in Nat
           /\ count = Sat(delivered)
=============================================================================
