------------------------------ MODULE Ind_Depth ------------------------------
(***************************************************************************)
(* UNBOUNDED check (Apalache) of the depth limiter (C11): for any limit up *)
(* to u32::MAX and any well-nested sequence of descend/ascend calls, the   *)
(* tracked depth equals the number of descents still open, an error is    *)
(* raised exactly when that number exceeds the limit, and after an error   *)
(* nothing further is decoded (the decoder returns).                       *)
(***************************************************************************)
EXTENDS Integers

VARIABLES
  \* @type: Int;
  depth,
  \* @type: Int;
  open,       \* ghost: descents not yet matched by an ascent
  \* @type: Int;
  limit,
  \* @type: Bool;
  failed

MaxLimit == 4294967295

Init == depth = 0 /\ open = 0 /\ limit \in 0..MaxLimit /\ failed = FALSE

Descend ==
  /\ ~failed
  /\ depth' = depth + 1
  /\ open' = open + 1
  /\ failed' = (depth + 1 > limit)
  /\ UNCHANGED limit
Ascend ==
  /\ ~failed /\ open > 0
  /\ depth' = depth - 1
  /\ open' = open - 1
  /\ UNCHANGED <<limit, failed>>
Next == Descend \/ Ascend

Inv ==
  /\ depth = open /\ open >= 0 /\ limit >= 0 /\ limit <= MaxLimit
  /\ failed <=> depth > limit                 \* error exactly when nesting exceeds the limit
  /\ depth <= limit + 1                       \* the decoder never goes deeper than one past the limit

IndInit ==
  /\ open \in Nat /\ limit \in 0..MaxLimit /\ failed \in BOOLEAN
  /\ depth = open
  /\ Inv
=============================================================================
