------------------------------- MODULE Ind_Mem -------------------------------
(***************************************************************************)
(* UNBOUNDED check (Apalache) of the memory-tracking input (C12): with the *)
(* real saturation bound (usize::MAX on a 64-bit target) the tracked usage *)
(* is the saturated sum of everything announced, and once the limit has    *)
(* been reached every further announcement fails too (the threshold is a   *)
(* single number: success iff limit > total announced).                    *)
(***************************************************************************)
EXTENDS Integers

VARIABLES
  \* @type: Int;
  used,
  \* @type: Int;
  sum,        \* ghost: unsaturated sum of announcements
  \* @type: Int;
  limit,
  \* @type: Bool;
  tripped     \* some announcement has returned an error

Max == 18446744073709551615
Sat(x) == IF x > Max THEN Max ELSE x

Init == used = 0 /\ sum = 0 /\ limit \in 0..Max /\ tripped = FALSE

Announce == \E n \in 0..Max :
  /\ used' = Sat(used + n)
  /\ sum' = sum + n
  /\ tripped' = (tripped \/ Sat(used + n) >= limit)
  /\ UNCHANGED limit
Next == Announce

Inv ==
  /\ used = Sat(sum) /\ sum >= 0 /\ limit >= 0 /\ limit <= Max
  /\ tripped => used >= limit          \* an error is reported only at or above the limit
  /\ (~tripped /\ sum > 0) => used < limit  \* and always once something announced reaches it

IndInit ==
  /\ sum \in Nat /\ limit \in 0..Max /\ tripped \in BOOLEAN
  /\ used = Sat(sum)
  /\ Inv
=============================================================================
