------------------------------ MODULE IoAdapters ------------------------------
(***************************************************************************)
(* IMPLEMENTATION-SHAPED models of the two std::io adapters:               *)
(*                                                                         *)
(*  IoReader (Input for any io::Read, C08): `read(into)` must fill the     *)
(*  whole buffer or fail - the reader underneath may deliver the data in   *)
(*  arbitrary short chunks, so the adapter loops (read_exact).             *)
(*                                                                         *)
(*  Output for any io::Write (C07): `write(bytes)` must hand over all the  *)
(*  bytes - the sink may accept only part of them per call, so the adapter *)
(*  loops (write_all).                                                     *)
(*                                                                         *)
(* Requirement: through the adapter the decoder/encoder sees exactly the   *)
(* slice behaviour (request of n bytes succeeds iff n bytes are left and   *)
(* consumes exactly n; every written byte arrives, in order).  AVariant    *)
(* names the slips of seeded changes: "single_read", "single_write",       *)
(* "fill_at_zero" (a hand-written fill loop that counts what it has but     *)
(* always passes the whole buffer, so later pieces overwrite earlier ones   *)
(* and more is pulled than asked), "accept_short" (any non-empty piece is   *)
(* taken for the whole request).                                            *)
(***************************************************************************)
EXTENDS Naturals, Sequences

CONSTANTS Data,       \* the byte sequence behind the reader / to be written
          MaxChunk,   \* the reader / sink handles at most this many bytes per call (at least 1)
          AVariant

VARIABLES mode,       \* "read" | "write"
          pos,        \* bytes the underlying reader has delivered / the encoder has handed over
          want,       \* size of the request in progress (0 = none)
          got,        \* bytes of it transferred so far
          sink,       \* what arrived in the sink
          buf,        \* the caller's buffer of the read in progress
          status      \* "idle" | "busy" | "err"
vars == <<mode, pos, want, got, sink, buf, status>>

Init == mode \in {"read", "write"} /\ pos = 0 /\ want = 0 /\ got = 0 /\ sink = <<>> /\ buf = <<>> /\ status = "idle"

\* the decoder / encoder issues a request of n bytes
Request(n) ==
  /\ status = "idle" /\ n >= 1
  /\ mode = "write" => pos + n <= Len(Data)
  /\ want' = n /\ got' = 0 /\ status' = "busy"
  /\ buf' = [i \in 1..n |-> 0]
  /\ UNCHANGED <<mode, pos, sink>>

\* one call on the underlying reader / sink: it transfers between 1 and MaxChunk bytes (0 at end of data)
Transfer(k) ==
  /\ status = "busy" /\ k \in 0..MaxChunk
  /\ IF mode = "read"
     THEN LET avail == Len(Data) - pos
              m1 == IF k > avail THEN avail ELSE k
              room == IF AVariant = "fill_at_zero" THEN want ELSE want - got       \* into[..] instead of into[got..]
              kk == IF m1 > room THEN room ELSE m1
              at == IF AVariant = "fill_at_zero" THEN 0 ELSE got
          IN /\ (avail > 0 /\ want - got > 0) => kk >= 1
             /\ pos' = pos + kk /\ got' = got + kk
             /\ sink' = sink
             /\ buf' = [i \in 1..want |-> IF at < i /\ i <= at + kk THEN Data[pos + i - at] ELSE buf[i]]
             /\ status' = IF AVariant = "accept_short" THEN (IF kk = 0 THEN "err" ELSE "idle")
                          ELSE IF got + kk >= want THEN "idle"
                          ELSE IF kk = 0 \/ AVariant = "single_read" THEN "err"     \* unexpected end / gave up after one call
                          ELSE "busy"
     ELSE LET kk == IF k > want - got THEN want - got ELSE k IN
          /\ kk >= 1
          /\ sink' = sink \o SubSeq(Data, pos + 1, pos + kk)
          /\ IF AVariant = "single_write"
             THEN pos' = pos + want /\ got' = want /\ status' = "idle"               \* the rest of the request is dropped
             ELSE pos' = pos + kk /\ got' = got + kk /\ status' = (IF got + kk = want THEN "idle" ELSE "busy")
          /\ buf' = buf
  /\ UNCHANGED <<mode, want>>

Next == (\E n \in 1..(Len(Data) + 1) : Request(n)) \/ (\E k \in 0..MaxChunk : Transfer(k))
Spec == Init /\ [][Next]_vars

\* the adapter fails only when the slice would: not enough data left for the request
ReadLikeSlice == (mode = "read" /\ status = "err") => want > Len(Data) - (pos - got)
\* a completed request consumed exactly what was asked
ReadExact == (mode = "read" /\ status = "idle") => got = want
\* ... and the buffer holds exactly the next `want` bytes of the data
ReadContent == (mode = "read" /\ status = "idle" /\ want > 0) => (pos >= want /\ buf = SubSeq(Data, pos - want + 1, pos))
\* everything handed over so far has arrived, in order
WriteComplete == (mode = "write" /\ status = "idle") => sink = SubSeq(Data, 1, pos)
=============================================================================
