------------------------------- MODULE Ledger -------------------------------
(***************************************************************************)
(* Construction / drop ledger of a container decoded element by element    *)
(* (property C10), as a state machine with fault injection.                *)
(*                                                                         *)
(* A container of n elements is built one element at a time.  The decoder  *)
(* may stop part-way at element f because the input is exhausted, the      *)
(* element is malformed, a limit is hit, or the element's own decoder      *)
(* panics.  Whatever happens, every element already constructed must be    *)
(* dropped exactly once: by the unwinding guard on failure, by the owner   *)
(* of the value on success.                                                *)
(*                                                                         *)
(* The guard is modelled the way `[T; N]::decode_into` implements it (a    *)
(* `count` of initialised slots, bumped AFTER each successful element and  *)
(* disarmed with `forget` on success); the other containers (vectors,      *)
(* maps, lists, boxes, tuples) behave like the same machine with the       *)
(* language's own drop glue as guard.  Guard variants name the slips the   *)
(* property rules out:                                                     *)
(*    "correct"       count += 1 after the element, forget on success      *)
(*    "count_before"  count += 1 before the element is decoded             *)
(*    "no_forget"     the guard is not disarmed on success                 *)
(*    "no_guard"      nothing drops the prefix on failure (leak; also what *)
(*                    a guard that "skips zero-sized elements" amounts to  *)
(*                    for elements that are tokens with a destructor)      *)
(*    "set_len_first" the container's length is set to the whole chunk     *)
(*                    before its elements exist, so unwinding drops slots  *)
(*                    that were never initialised                          *)
(*    "assume_init_on_error"  after a failed in-place decode the block is  *)
(*                    treated as an initialised value and dropped whole    *)
(***************************************************************************)
EXTENDS Naturals, FiniteSets, Sequences

CONSTANTS MaxN, Guard,
          BoxOrder   \* how a boxed container obtains its heap block (Box::decode_wrapped):
                     \*   "faithful"           announce, allocate, wrap the raw block in an owning Box<MaybeUninit>, decode
                     \*   "alloc_before_hook"  allocate first, announce while the block is still a raw pointer
                     \*   "raw_during_decode"  decode through the raw pointer, wrap afterwards

\* "hooklimit": the container's own allocation announcement is refused (f = 0: nothing constructed yet)
Kinds == {"none", "exhausted", "malformed", "limit", "panic", "hooklimit"}

VARIABLES n, f, kind,      \* the vector: size, fault position (n = no fault), fault kind
          i, count,        \* next element, guard's count of initialised slots
          live,            \* ids constructed and not yet dropped
          drops,           \* how often each id has been dropped
          status,          \* "boxing" | "run" | "unwind" | "err" | "panic" | "ok" | "released"
          block            \* the container's own heap block: "none" | "raw" | "owned" | "freed" | "leaked"
vars == <<n, f, kind, i, count, live, drops, status, block>>

Init ==
  /\ n \in 0..MaxN
  /\ \/ f = n /\ kind = "none"
     \/ f \in 0..(n - 1) /\ kind \in Kinds \ {"none", "hooklimit"}
     \/ f = 0 /\ n >= 1 /\ kind = "hooklimit"
  /\ i = 0 /\ count = 0 /\ live = {} /\ drops = [j \in 0..MaxN |-> 0]
  /\ status = "boxing" /\ block = "none"

\* obtaining the block: the announcement may be refused (kind = "hooklimit")
Boxing ==
  /\ status = "boxing"
  /\ LET refused == kind = "hooklimit" IN
     CASE BoxOrder = "alloc_before_hook" ->
            IF refused THEN status' = "err" /\ block' = "leaked"            \* `?` returns while the block is a raw pointer
            ELSE status' = "run" /\ block' = "owned"
       [] BoxOrder = "raw_during_decode" ->
            IF refused THEN status' = "err" /\ block' = "none"
            ELSE status' = "run" /\ block' = "raw"
       [] OTHER ->
            IF refused THEN status' = "err" /\ block' = "none"              \* refused before anything is allocated
            ELSE status' = "run" /\ block' = "owned"
  /\ UNCHANGED <<n, f, kind, i, count, live, drops>>

\* decode element i successfully
Construct ==
  /\ status = "run" /\ i < n /\ i # f
  /\ live' = live \cup {i}
  /\ i' = i + 1
  /\ count' = count + 1                      \* after ("correct") or before: same value once the element exists
  /\ UNCHANGED <<n, f, kind, drops, status, block>>

\* element f fails: nothing is constructed for it
Fault ==
  /\ status = "run" /\ i = f /\ f < n /\ kind # "hooklimit"
  /\ status' = "unwind"
  /\ count' = IF Guard = "count_before" THEN count + 1 ELSE IF Guard = "set_len_first" THEN n ELSE count
  \* an owning box frees its block while unwinding; a raw pointer is freed by hand on the error path only
  /\ block' = IF block = "owned" THEN "freed" ELSE IF block = "raw" /\ kind # "panic" THEN "freed" ELSE IF block = "raw" THEN "leaked" ELSE block
  /\ UNCHANGED <<n, f, kind, i, live, drops>>

\* the guard drops slot j < count
UnwindDrop ==
  /\ status = "unwind" /\ Guard # "no_guard"
  /\ \E j \in 0..(count - 1) :
       /\ drops[j] = 0
       /\ drops' = [drops EXCEPT ![j] = @ + 1]
       /\ live' = live \ {j}
  /\ UNCHANGED <<n, f, kind, i, count, status, block>>

UnwindDone ==
  /\ status = "unwind"
  /\ Guard = "no_guard" \/ \A j \in 0..(count - 1) : drops[j] > 0
  /\ status' = IF kind = "panic" THEN "panic" ELSE "err"
  /\ IF Guard = "assume_init_on_error" /\ kind # "panic"
     THEN drops' = [j \in 0..MaxN |-> IF j < n THEN drops[j] + 1 ELSE drops[j]] /\ live' = {}
     ELSE UNCHANGED <<drops, live>>
  /\ UNCHANGED <<n, f, kind, i, count, block>>

\* all elements decoded: disarm the guard and hand the value over
Finish ==
  /\ status = "run" /\ i = n /\ f = n
  /\ status' = "ok"
  /\ IF Guard = "no_forget"
     THEN /\ drops' = [j \in 0..MaxN |-> IF j < count THEN drops[j] + 1 ELSE drops[j]]
          /\ live' = {}
     ELSE UNCHANGED <<drops, live>>
  /\ block' = "owned"
  /\ UNCHANGED <<n, f, kind, i, count>>

\* the owner drops the value
Release ==
  /\ status = "ok"
  /\ drops' = [j \in 0..MaxN |-> IF j < n THEN drops[j] + 1 ELSE drops[j]]
  /\ live' = {}
  /\ status' = "released"
  /\ block' = "freed"
  /\ UNCHANGED <<n, f, kind, i, count>>

Next == Boxing \/ Construct \/ Fault \/ UnwindDrop \/ UnwindDone \/ Finish \/ Release
Spec == Init /\ [][Next]_vars /\ WF_vars(Next)

ExactlyOnce == \A j \in 0..MaxN : drops[j] <= 1
OnlyConstructed == \A j \in 0..MaxN : drops[j] > 0 => j < i     \* never drop a slot that was not initialised
FailedReleasesAll == status \in {"err", "panic"} => live = {}
HandedOverWhole == status = "ok" => live = 0..(n - 1)
ReleasedAll == status = "released" => live = {} /\ \A j \in 0..(n - 1) : drops[j] = 1
Terminates == <>(status \in {"err", "panic", "released"})
\* the container's own block is never leaked: freed on every failure path, owned by the value on success
NoBlockLeak == /\ block # "leaked"
               /\ status \in {"err", "panic"} => block \in {"none", "freed"}
               /\ status = "released" => block = "freed"

\* what the ledger of the real code must show for a vector (used by the trace specification)
ExpectedNew(total, fpos) == IF fpos < 0 THEN total ELSE fpos
=============================================================================
