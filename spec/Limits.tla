------------------------------- MODULE Limits -------------------------------
(***************************************************************************)
(* REQUIREMENT LAYER for the resource-limited decoders: the envelopes      *)
(* inside which the observed nesting depth and the announced heap usage of *)
(* a successfully decoded value must lie (properties C11, C12), and the    *)
(* expected outcome of a decode through a stack of input wrappers.         *)
(*                                                                         *)
(* The envelopes are deliberately wider than what the implementation does  *)
(* today (Decoder.tla is one point inside them), so that a refactoring     *)
(* which keeps the property is accepted and one that breaks it is not.     *)
(***************************************************************************)
EXTENDS ScaleFormat

MaxSeq(f(_), xs) == FoldLeft(LAMBDA a, x : MaxOf(a, f(x)), 0, xs)
SumSeq(f(_), xs) == FoldLeft(LAMBDA a, x : a + f(x), 0, xs)
Idx(n) == [i \in 1..n |-> i]

IsHeapPtr(ty) == ty.p \in {"box", "rc", "arc"}

\* pointer levels inside a type all of whose values have the empty encoding
RECURSIVE ZDepth(_, _)
ZDepth(E, ty) ==
  CASE ty.k = "ptr" -> (IF IsHeapPtr(ty) THEN 1 ELSE 0) + ZDepth(E, ty.t)
    [] ty.k = "tuple" -> MaxSeq(LAMBDA t : ZDepth(E, t), ty.ts)
    [] ty.k = "array" -> IF ty.n = 0 THEN 0 ELSE ZDepth(E, ty.t)
    [] OTHER -> 0

(***************************************************************************)
(* MaxDepth: the container nesting depth of a value - every pointer or     *)
(* collection level present in it counts (also strings, byte vectors, bit  *)
(* sequences and empty collections).  Decoding with a depth limit of at    *)
(* least this must succeed.                                                *)
(***************************************************************************)
RECURSIVE MaxDepth(_, _, _)
MaxDepth(E, ty, v) ==
  CASE ty.k \in {"int", "bool", "unit", "compact", "nonzero", "optbool", "duration"} -> 0
    [] ty.k = "option" -> IF Len(v) = 0 THEN 0 ELSE MaxDepth(E, ty.t, v[1])
    [] ty.k = "result" -> IF "ok" \in DOMAIN v THEN MaxDepth(E, ty.t, v.ok) ELSE MaxDepth(E, ty.e, v.err)
    [] ty.k = "seq" -> 1 + (IF ZeroElems(E, ty) THEN ZDepth(E, Resolve(E, ty.t))
                            ELSE MaxSeq(LAMBDA x : MaxDepth(E, ty.t, x), v))
    [] ty.k = "set" -> 1 + MaxSeq(LAMBDA x : MaxDepth(E, ty.t, x), v)
    [] ty.k \in {"str", "bits"} -> 1
    [] ty.k = "map" -> 1 + MaxSeq(LAMBDA e : MaxOf(MaxDepth(E, ty.key, e[1]), MaxDepth(E, ty.val, e[2])), v)
    [] ty.k = "array" -> MaxSeq(LAMBDA x : MaxDepth(E, ty.t, x), v)
    [] ty.k = "tuple" -> MaxSeq(LAMBDA i : MaxDepth(E, ty.ts[i], v[i]), Idx(Len(ty.ts)))
    [] ty.k = "enum" -> MaxSeq(LAMBDA j : MaxDepth(E, ty.vs[v.i].ts[j], v.fs[j]), Idx(Len(ty.vs[v.i].ts)))
    [] ty.k = "ptr" -> (IF IsHeapPtr(ty) THEN 1 ELSE 0) + MaxDepth(E, ty.t, v)
    [] ty.k = "named" -> MaxDepth(E, E[ty.n], v)

(***************************************************************************)
(* MinDepth: the levels of heap-allocating containers the value really     *)
(* recurses through: pointers, non-empty collections whose elements are    *)
(* decoded one by one (i.e. not the bulk-copied primitive sequences,       *)
(* strings, byte buffers and bit sequences).  Decoding with a smaller      *)
(* limit must fail.                                                        *)
(***************************************************************************)
BulkElems(E, ty) == LET rt == Resolve(E, ty.t) IN rt.k = "int" /\ rt.b

RECURSIVE MinDepth(_, _, _)
MinDepth(E, ty, v) ==
  CASE ty.k \in {"int", "bool", "unit", "compact", "nonzero", "optbool", "duration", "str", "bits"} -> 0
    [] ty.k = "option" -> IF Len(v) = 0 THEN 0 ELSE MinDepth(E, ty.t, v[1])
    [] ty.k = "result" -> IF "ok" \in DOMAIN v THEN MinDepth(E, ty.t, v.ok) ELSE MinDepth(E, ty.e, v.err)
    [] ty.k = "seq" -> IF ZeroElems(E, ty) THEN (IF IsZeroDig(v.rep) THEN 0 ELSE 1 + ZDepth(E, Resolve(E, ty.t)))
                       ELSE IF Len(v) = 0 \/ (BulkElems(E, ty) /\ ty.c # "list") THEN 0
                       ELSE 1 + MaxSeq(LAMBDA x : MinDepth(E, ty.t, x), v)
    [] ty.k = "set" -> IF Len(v) = 0 THEN 0 ELSE 1 + MaxSeq(LAMBDA x : MinDepth(E, ty.t, x), v)
    [] ty.k = "map" -> IF Len(v) = 0 THEN 0
                       ELSE 1 + MaxSeq(LAMBDA e : MaxOf(MinDepth(E, ty.key, e[1]), MinDepth(E, ty.val, e[2])), v)
    [] ty.k = "array" -> MaxSeq(LAMBDA x : MinDepth(E, ty.t, x), v)
    [] ty.k = "tuple" -> MaxSeq(LAMBDA i : MinDepth(E, ty.ts[i], v[i]), Idx(Len(ty.ts)))
    [] ty.k = "enum" -> MaxSeq(LAMBDA j : MinDepth(E, ty.vs[v.i].ts[j], v.fs[j]), Idx(Len(ty.vs[v.i].ts)))
    [] ty.k = "ptr" -> (IF IsHeapPtr(ty) THEN 1 ELSE 0) + MinDepth(E, ty.t, v)
    [] ty.k = "named" -> MinDepth(E, E[ty.n], v)

DepthEnvelope(E, ty, v, dObs) == MinDepth(E, ty, v) <= dObs /\ dObs <= MaxDepth(E, ty, v)

(***************************************************************************)
(* HeapPayload: bytes of decoded data the value holds on the heap -        *)
(* element count times element size, boxed value size, string length,      *)
(* summed over nesting; tree maps and sets count half (the announced       *)
(* amount is an estimate of node storage).                                 *)
(***************************************************************************)
ElemSize(E, t) == Resolve(E, t).sz

RECURSIVE HeapPayload(_, _, _)
HeapPayload(E, ty, v) ==
  CASE ty.k \in {"int", "bool", "unit", "compact", "nonzero", "optbool", "duration"} -> 0
    [] ty.k = "option" -> IF Len(v) = 0 THEN 0 ELSE HeapPayload(E, ty.t, v[1])
    [] ty.k = "result" -> IF "ok" \in DOMAIN v THEN HeapPayload(E, ty.t, v.ok) ELSE HeapPayload(E, ty.e, v.err)
    [] ty.k = "seq" -> IF ZeroElems(E, ty)
                       THEN (IF ElemSize(E, ty.t) = 0 THEN 0
                             ELSE LET n == ToNat(v.rep) IN IF n > 1048576 THEN 1048576 ELSE n * ElemSize(E, ty.t))   \* elements with an empty encoding may still occupy memory
                       ELSE Len(v) * ElemSize(E, ty.t) + SumSeq(LAMBDA x : HeapPayload(E, ty.t, x), v)
    [] ty.k = "set" -> (Len(v) * ty.esz) \div 2 + SumSeq(LAMBDA x : HeapPayload(E, ty.t, x), v)
    [] ty.k = "str" -> Len(v)
    [] ty.k = "bits" -> BitWords(Len(v), ty.w) * ty.w
    [] ty.k = "map" -> (Len(v) * ty.esz) \div 2
                       + SumSeq(LAMBDA e : HeapPayload(E, ty.key, e[1]) + HeapPayload(E, ty.val, e[2]), v)
    [] ty.k = "array" -> SumSeq(LAMBDA x : HeapPayload(E, ty.t, x), v)
    [] ty.k = "tuple" -> SumSeq(LAMBDA i : HeapPayload(E, ty.ts[i], v[i]), Idx(Len(ty.ts)))
    [] ty.k = "enum" -> SumSeq(LAMBDA j : HeapPayload(E, ty.vs[v.i].ts[j], v.fs[j]), Idx(Len(ty.vs[v.i].ts)))
    [] ty.k = "ptr" -> (IF IsHeapPtr(ty) THEN ty.tsz ELSE 0) + HeapPayload(E, ty.t, v)
    [] ty.k = "named" -> HeapPayload(E, E[ty.n], v)

\* the value holds no heap data at all
RECURSIVE HeapFree(_, _, _)
HeapFree(E, ty, v) ==
  CASE ty.k \in {"int", "bool", "unit", "compact", "nonzero", "optbool", "duration"} -> TRUE
    [] ty.k = "option" -> Len(v) = 0 \/ HeapFree(E, ty.t, v[1])
    [] ty.k = "result" -> IF "ok" \in DOMAIN v THEN HeapFree(E, ty.t, v.ok) ELSE HeapFree(E, ty.e, v.err)
    \* a vector of zero-sized elements allocates nothing however long it is; a linked list allocates a node per element
    [] ty.k = "seq" -> IF ZeroElems(E, ty) THEN (IsZeroDig(v.rep) \/ (ElemSize(E, ty.t) = 0 /\ ty.c # "list")) ELSE Len(v) = 0
    [] ty.k \in {"set", "str", "bits", "map"} -> Len(v) = 0
    [] ty.k = "array" -> \A i \in 1..Len(v) : HeapFree(E, ty.t, v[i])
    [] ty.k = "tuple" -> \A i \in 1..Len(ty.ts) : HeapFree(E, ty.ts[i], v[i])
    [] ty.k = "enum" -> \A j \in 1..Len(ty.vs[v.i].ts) : HeapFree(E, ty.vs[v.i].ts[j], v.fs[j])
    [] ty.k = "ptr" -> (~IsHeapPtr(ty) \/ ty.tsz = 0) /\ HeapFree(E, ty.t, v)
    [] ty.k = "named" -> HeapFree(E, E[ty.n], v)

\* U: digits of the total announced
MemEnvelope(E, ty, v, U) ==
  /\ HeapFree(E, ty, v) => IsZeroDig(U)
  /\ ToNat(U) >= HeapPayload(E, ty, v)
=============================================================================
