SPECIFICATION Spec
CONSTANT Mode = "checked"
CONSTANT MaxSteps = 3
INVARIANT Refines
INVARIANT PrefixOK
INVARIANT EmptyOK
INVARIANT Garbage
CHECK_DEADLOCK FALSE
