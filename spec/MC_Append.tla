------------------------------ MODULE MC_Append ------------------------------
(***************************************************************************)
(* DESIGN CHECK for C15: histories of up to three appends from an empty    *)
(* buffer or from an encoded sequence whose count sits on or around a      *)
(* prefix-width boundary (63/64, 2^14, 2^30) or the 2^32 limit.            *)
(*                                                                         *)
(*   Refines     AppendImpl(Mode) = AppendReq at every step                *)
(*   PrefixOK    the buffer always begins with the canonical count of the  *)
(*               ghost sequence                                            *)
(* With Mode = "legacy" TLC reports the history                            *)
(*   [one item] ; append 2^32 zero-width items  ->  Ok, count still 1      *)
(* which is the defect repaired by the fix: commit (see known_findings).   *)
(***************************************************************************)
EXTENDS Append, TLC

CONSTANTS Mode, MaxSteps

VARIABLES buf, n, payload, steps, status
vars == <<buf, n, payload, steps, status>>

D(x) == Strip(x)
Counts0 == { <<>>, <<1>>, <<62>>, <<63>>, <<64>>, <<254, 63>>, <<255, 63>>, <<0, 64>>,
             <<254, 255, 255, 63>>, <<255, 255, 255, 63>>, <<0, 0, 0, 64>>,
             <<253, 255, 255, 255>>, <<254, 255, 255, 255>>, <<255, 255, 255, 255>> }
BatchN0 == { <<>>, <<1>>, <<2>>, <<3>>, <<0, 0, 0, 64>>, <<255, 255, 255, 255>>, <<0, 0, 0, 0, 1>>, <<1, 0, 0, 0, 1>> }
SmallN == { <<>>, <<1>>, <<2>>, <<3>> }
Items == { <<7>>, <<8, 9>> }

Batches == { [n |-> k, item |-> <<>>] : k \in BatchN0 } \cup { [n |-> k, item |-> it] : k \in SmallN, it \in Items }

Init ==
  /\ steps = 0 /\ status = "ok"
  /\ \/ buf = <<>> /\ n = <<>> /\ payload = <<>>
     \/ \E c \in Counts0 : buf = CompactEnc(c) /\ n = D(c) /\ payload = <<>>       \* zero-width items
     \/ \E c \in SmallN, it \in Items :
           /\ n = D(c) /\ payload = Repeat(it, c) /\ buf = CompactEnc(c) \o payload

DoAppend(b) ==
  LET r == AppendImpl(Mode, buf, b) IN
  /\ steps < MaxSteps /\ status = "ok"
  /\ steps' = steps + 1
  /\ IF r.ok
     THEN /\ buf' = r.buf
          /\ n' = Strip(DigAdd(n, b.n))
          /\ payload' = payload \o Repeat(b.item, b.n)
          /\ status' = "ok"
     ELSE /\ UNCHANGED <<buf, n, payload>>
          /\ status' = "err"

\* the item width must stay uniform within a history for the ghost payload to be meaningful:
\* any mix is fine for the equation, so no restriction is needed
Next == \E b \in Batches : DoAppend(b)
Spec == Init /\ [][Next]_vars

Refines ==
  \A b \in Batches :
     LET i == AppendImpl(Mode, buf, b)
         r == AppendReq(Len(buf) > 0, n, payload, b)
     IN status = "ok" => (i.ok = r.ok /\ (i.ok => i.buf = r.buf))

PrefixOK == status = "ok" /\ Len(buf) > 0 => /\ IsPrefixAt(CompactEnc(n), buf, 0)
                                             /\ buf = CompactEnc(n) \o payload
                                             /\ ~DigLess(U32Max, n)
\* an empty buffer is an empty sequence
EmptyOK == Len(buf) = 0 => IsZeroDig(n)

\* garbage that is not a valid count is rejected
Garbage == \A g \in { <<1>>, <<2, 0>>, <<3, 0, 0, 0, 0>>, <<7, 0, 0, 0, 0, 1>>, <<253, 0>>, <<255>> } :
              \A b \in Batches : ~AppendImpl(Mode, g, b).ok
=============================================================================
