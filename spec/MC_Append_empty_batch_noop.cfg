SPECIFICATION Spec
CONSTANT Mode = "empty_batch_noop"
CONSTANT MaxSteps = 3
INVARIANT Refines
INVARIANT PrefixOK
INVARIANT EmptyOK
INVARIANT Garbage
CHECK_DEADLOCK FALSE
