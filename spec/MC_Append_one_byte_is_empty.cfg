SPECIFICATION Spec
CONSTANT Mode = "one_byte_is_empty"
CONSTANT MaxSteps = 3
INVARIANT Refines
INVARIANT PrefixOK
INVARIANT EmptyOK
INVARIANT Garbage
CHECK_DEADLOCK FALSE
