SPECIFICATION Spec
CONSTANT Mode = "shift_from_growth"
CONSTANT MaxSteps = 3
INVARIANT Refines
INVARIANT PrefixOK
INVARIANT EmptyOK
INVARIANT Garbage
CHECK_DEADLOCK FALSE
