SPECIFICATION Spec
CONSTANT Mode = "uniform_prefix"
CONSTANT MaxSteps = 3
INVARIANT Refines
INVARIANT PrefixOK
INVARIANT EmptyOK
INVARIANT Garbage
CHECK_DEADLOCK FALSE
