SPECIFICATION Spec
CONSTANT Mode = "width_from_mode"
CONSTANT MaxSteps = 3
INVARIANT Refines
INVARIANT PrefixOK
INVARIANT EmptyOK
INVARIANT Garbage
CHECK_DEADLOCK FALSE
