---------------------------- MODULE MC_BytesCursor ----------------------------
(* bounded instance: Total = 5 bytes, up to 4 operations; see BytesCursor.tla *)
EXTENDS BytesCursor
=============================================================================
