SPECIFICATION Spec
CONSTANT Total = 5
CONSTANT MaxOps = 4
CONSTANT Variant = "no_reset"
INVARIANT NeverPanics
INVARIANT LikeASlice
INVARIANT PositionInside
CHECK_DEADLOCK FALSE
