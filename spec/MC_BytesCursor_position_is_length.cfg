SPECIFICATION Spec
CONSTANT Total = 5
CONSTANT MaxOps = 4
CONSTANT Variant = "position_is_length"
INVARIANT NeverPanics
INVARIANT LikeASlice
INVARIANT PositionInside
CHECK_DEADLOCK FALSE
