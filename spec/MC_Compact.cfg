SPECIFICATION Spec
CONSTANT Tier = "quick"
INVARIANT RoundTrip
INVARIANT Minimal
INVARIANT WidthCompat
INVARIANT Canonical
INVARIANT Capacity
CHECK_DEADLOCK FALSE
