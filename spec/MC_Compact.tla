----------------------------- MODULE MC_Compact -----------------------------
(***************************************************************************)
(* DESIGN CHECK of compact integers (property C04).                        *)
(*                                                                         *)
(* Exhaustive for the 8- and 16-bit widths: every value and every byte     *)
(* string of length <= 2 (plus length 3 with a boundary third byte).       *)
(* Boundary-complete for 32/64/128 bit: the class-boundary value family    *)
(* and the (tag byte x top byte x fill x length) string family that        *)
(* Gen_Compact also hands to the real code.                                *)
(*                                                                         *)
(*   RoundTrip     CompactDec(W, CompactEnc(v) \o t) = v, consuming        *)
(*                 Len(CompactEnc(v)) = CompactLen(v)                      *)
(*   Minimal       the encoding has the shortest of the four mode lengths  *)
(*                 able to hold v                                          *)
(*   WidthCompat   every wider decoder accepts the same bytes as the same  *)
(*                 value; every narrower one accepts iff the value fits    *)
(*   Canonical     an accepted string begins with CompactEnc of its value  *)
(*                 (so no second string decodes to an encodable value)     *)
(*   Capacity      CompactLen(v) <= the fixed buffer the implementation    *)
(*                 uses for width W (2/4/5/9/17 bytes)                     *)
(*   ImplRefines   CompactImpl.ImplDec (the code's branches, transcribed)  *)
(*                 = CompactDec on every explored string                   *)
(***************************************************************************)
EXTENDS TypeLib, CompactImpl

CONSTANT Tier
VARIABLES mode, W, x
vars == <<mode, W, x>>

Widths == {1, 2, 4, 8, 16}
AllBytes == 0..255
Bnd == {0, 1, 2, 3, 4, 5, 8, 63, 64, 127, 128, 252, 253, 255}

\* class-boundary value family for width w (see Gen_Compact)
Lows == {0, 1, 2, 3, 4, 251, 252, 253, 254, 255}
Tops == {1, 63, 64, 127, 128, 255}
FamilyVals(w) ==
  { [i \in 1..w |-> IF i > k THEN 0 ELSE IF i = k THEN t ELSE IF i = 1 THEN lo ELSE f] :
       k \in 1..w, t \in Tops, lo \in Lows, f \in {0, 255} }
  \cup { Pad(<<lo>>, w) : lo \in 0..255 }
FamilyStrs ==
  { [i \in 1..n |-> IF i = 1 THEN tag ELSE IF i = n THEN t ELSE f] :
       n \in 1..18, tag \in (IF Tier = "quick" THEN {0, 1, 2, 3, 7, 11, 15, 19, 23, 51, 55, 252, 253, 254, 255}
                         ELSE { t \in AllBytes : t % 4 = 3 \/ t \in {0, 1, 2, 4, 5, 6, 252, 253, 254} }),   \* every length tag
       t \in {0, 1, 63, 64, 128, 255}, f \in {0, 255} }

Init ==
  \/ mode = "val" /\ W \in {1} /\ x \in { <<a>> : a \in AllBytes }
  \/ mode = "val" /\ W \in {2} /\ x \in { <<a, b>> : a \in AllBytes, b \in AllBytes }
  \/ mode = "val" /\ W \in {4, 8, 16} /\ x \in FamilyVals(W)
  \/ mode = "str" /\ W \in Widths /\ x \in {<<>>} \cup { <<a>> : a \in AllBytes }
  \/ mode = "str" /\ W \in {1, 2} /\ x \in { <<a, b>> : a \in AllBytes, b \in AllBytes }
  \/ mode = "str" /\ W \in {1, 2} /\ x \in { <<a, b, c>> : a \in AllBytes, b \in (IF Tier = "quick" THEN Bnd ELSE AllBytes), c \in Bnd }
  \/ mode = "str" /\ W \in Widths /\ x \in FamilyStrs

\* a second step re-decodes the encoding with a tail appended (keeps the machine non-trivial)
Next == mode = "val" /\ mode' = "valtail" /\ UNCHANGED <<W, x>>
Spec == Init /\ [][Next]_vars

Cap(w) == CompactMaxLen(w)

RoundTrip ==
  mode \in {"val", "valtail"} =>
    LET e == CompactEnc(x)
        t == IF mode = "val" THEN <<>> ELSE <<255, 0>>
        d == CompactDec(W, e \o t, 0)
    IN d.ok /\ d.v = x /\ d.p = Len(e) /\ Len(e) = CompactLen(x)

Minimal ==
  mode = "val" =>
    LET n == Len(CompactEnc(x))  h == HighNZ(x) IN
    /\ n \in {1, 2, 4} \cup 5..17
    /\ n = 1 <=> Below(x, 1)
    /\ n = 2 <=> (~Below(x, 1) /\ Below(x, 2))
    /\ n = 4 <=> (~Below(x, 2) /\ Below(x, 4))
    /\ n >= 5 <=> ~Below(x, 4)
    /\ n >= 5 => n = h + 1

WidthCompat ==
  mode = "val" =>
    \A w2 \in Widths :
       LET d == CompactDec(w2, CompactEnc(x), 0) IN
       IF Fits(x, w2) THEN d.ok /\ DigEq(d.v, x) /\ d.p = Len(CompactEnc(x)) ELSE ~d.ok

Canonical ==
  mode = "str" =>
    LET d == CompactDec(W, x, 0) IN
    d.ok => /\ Fits(d.v, W) /\ Len(d.v) = W
            /\ d.p <= Len(x)
            /\ SubSeq(x, 1, d.p) = CompactEnc(d.v)

Capacity == mode = "val" => CompactLen(x) <= Cap(W)

\* the transcription of the code's decoder branches is the requirement's decoder
ImplRefines ==
  mode = "str" => LET i == ImplDec(W, x, 0)  r == CompactDec(W, x, 0) IN
                  i.ok = r.ok /\ (i.ok => i.v = r.v /\ i.p = r.p)
=============================================================================
