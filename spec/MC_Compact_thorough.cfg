SPECIFICATION Spec
CONSTANT Tier = "thorough"
INVARIANT RoundTrip
INVARIANT Minimal
INVARIANT WidthCompat
INVARIANT Canonical
INVARIANT Capacity
CHECK_DEADLOCK FALSE
