SPECIFICATION Spec
CONSTANT DVariant = "u128_any_width"
CONSTANT Tier = "quick"
INVARIANT RoundTrip
INVARIANT Minimal
INVARIANT WidthCompat
INVARIANT Canonical
INVARIANT Capacity
INVARIANT ImplRefines
CHECK_DEADLOCK FALSE
