SPECIFICATION Spec
CONSTANT DVariant = "u16_narrow_first"
CONSTANT Tier = "quick"
INVARIANT RoundTrip
INVARIANT Minimal
INVARIANT WidthCompat
INVARIANT Canonical
INVARIANT Capacity
INVARIANT ImplRefines
CHECK_DEADLOCK FALSE
