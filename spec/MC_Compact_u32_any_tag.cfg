SPECIFICATION Spec
CONSTANT DVariant = "u32_any_tag"
CONSTANT Tier = "quick"
INVARIANT RoundTrip
INVARIANT Minimal
INVARIANT WidthCompat
INVARIANT Canonical
INVARIANT Capacity
INVARIANT ImplRefines
CHECK_DEADLOCK FALSE
