SPECIFICATION Spec
CONSTANT DVariant = "u64_guard_16"
CONSTANT Tier = "quick"
INVARIANT RoundTrip
INVARIANT Minimal
INVARIANT WidthCompat
INVARIANT Canonical
INVARIANT Capacity
INVARIANT ImplRefines
CHECK_DEADLOCK FALSE
