SPECIFICATION Spec
CONSTANT DVariant = "u8_ge"
CONSTANT Tier = "quick"
INVARIANT RoundTrip
INVARIANT Minimal
INVARIANT WidthCompat
INVARIANT Canonical
INVARIANT Capacity
INVARIANT ImplRefines
CHECK_DEADLOCK FALSE
