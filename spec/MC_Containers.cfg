SPECIFICATION Spec
CONSTANT MaxOps = 6
VIEW view
INVARIANT DequeLayoutFree
INVARIANT GhostAgrees
INVARIANT MapOrderFree
INVARIANT BitsOffsetFree
CHECK_DEADLOCK FALSE
