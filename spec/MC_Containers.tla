---------------------------- MODULE MC_Containers ----------------------------
(***************************************************************************)
(* DESIGN CHECK for C06: all histories of a ring-buffer deque (capacity    *)
(* growing from 2), of an ordered map and of a bit store with head offset. *)
(*                                                                         *)
(*   DequeLayoutFree   encoding the two physical slices one after the      *)
(*                     other = Enc(seq, logical content), whatever head    *)
(*                     and capacity are                                    *)
(*   GhostAgrees       the physical deque holds what the logical fold of   *)
(*                     the operation history says (Logical is the right    *)
(*                     reference for the trace specification)              *)
(*   MapOrderFree      a map's encoding is that of its key-sorted entries  *)
(*                     whatever the insertion order                        *)
(*   BitsOffsetFree    a bit sequence encodes from its logical start with  *)
(*                     zero padding whatever its offset in the store       *)
(* The history variable is hidden from the state graph by VIEW.            *)
(***************************************************************************)
EXTENDS Containers, TLC

CONSTANT MaxOps,
         CVariant    \* "faithful" | "slices_swapped" (the deque's wrap-around slice written first) |
                     \* "bits_raw_words" (a bit sequence written as its storage words, stale bits behind the end included)

U8T == [k |-> "int", w |-> 1, s |-> FALSE, b |-> TRUE, sz |-> 1]
U16T == [k |-> "int", w |-> 2, s |-> FALSE, b |-> TRUE, sz |-> 2]
DequeT == [k |-> "seq", t |-> U16T, c |-> "deque", sz |-> 32]
MapT == [k |-> "map", key |-> U8T, val |-> U8T, esz |-> 2, sz |-> 24]
BitsT == [k |-> "bits", w |-> 1, o |-> "msb0", sz |-> 24]
E0 == [nil |-> [k |-> "unit"]]

VARIABLES ring, map, bits, hist, mhist, nops
vars == <<ring, map, bits, hist, mhist, nops>>
view == <<ring, map, bits, nops>>

Elems == { <<1, 0>>, <<2, 1>> }
Keys == { <<1>>, <<2>>, <<3>> }

Init ==
  /\ ring = [buf |-> <<0, 0>>, head |-> 0, len |-> 0]
  /\ map = <<>>
  /\ bits = [bits |-> <<>>, head |-> 0, len |-> 0]
  /\ hist = <<>> /\ mhist = <<>>
  /\ nops = 0

Full == ring.len = Len(ring.buf)
Bump == nops < MaxOps /\ nops' = nops + 1

PushBack(x) == /\ Bump
               /\ ring' = RingPushBack(IF Full THEN RingGrow(ring) ELSE ring, x)
               /\ hist' = Append(hist, <<"pb", x>>) /\ UNCHANGED <<map, bits, mhist>>
PushFront(x) == /\ Bump
                /\ ring' = RingPushFront(IF Full THEN RingGrow(ring) ELSE ring, x)
                /\ hist' = Append(hist, <<"pf", x>>) /\ UNCHANGED <<map, bits, mhist>>
PopBack == /\ Bump /\ ring.len > 0 /\ ring' = RingPopBack(ring)
           /\ hist' = Append(hist, <<"ob">>) /\ UNCHANGED <<map, bits, mhist>>
PopFront == /\ Bump /\ ring.len > 0 /\ ring' = RingPopFront(ring)
            /\ hist' = Append(hist, <<"of">>) /\ UNCHANGED <<map, bits, mhist>>
MakeContiguous == /\ Bump /\ ring' = RingMakeContiguous(ring)
                  /\ hist' = Append(hist, <<"mc">>) /\ UNCHANGED <<map, bits, mhist>>

MapInsert(k, v) == /\ Bump /\ map' = MapOp(E0, U8T, map, <<"mi", k, v>>)
                   /\ mhist' = Append(mhist, <<"mi", k, v>>) /\ UNCHANGED <<ring, bits, hist>>
MapRemove(k) == /\ Bump /\ map' = MapOp(E0, U8T, map, <<"mr", k>>)
                /\ mhist' = Append(mhist, <<"mr", k>>) /\ UNCHANGED <<ring, bits, hist>>

BitPush(b) == /\ Bump /\ bits' = [bits EXCEPT !.bits = Append(SubSeq(@, 1, bits.head + bits.len), b), !.len = @ + 1]
              /\ UNCHANGED <<ring, map, hist, mhist>>
\* drop the first bit: the head offset moves, the store keeps the stale bit
BitDropFirst == /\ Bump /\ bits.len > 0 /\ bits' = [bits EXCEPT !.head = @ + 1, !.len = @ - 1]
                /\ UNCHANGED <<ring, map, hist, mhist>>
\* shorten: stale bits stay behind the logical end
BitTruncate == /\ Bump /\ bits.len > 0 /\ bits' = [bits EXCEPT !.len = @ - 1]
               /\ UNCHANGED <<ring, map, hist, mhist>>

Next ==
  \/ \E x \in Elems : PushBack(x) \/ PushFront(x)
  \/ PopBack \/ PopFront \/ MakeContiguous
  \/ \E k \in Keys, v \in Keys : MapInsert(k, v)
  \/ \E k \in Keys : MapRemove(k)
  \/ \E b \in {0, 1} : BitPush(b)
  \/ BitDropFirst \/ BitTruncate

Spec == Init /\ [][Next]_vars

\* what the deque encoder writes: count, then the elements of both slices in turn
RingEncode(r) ==
  LET sl == RingSlices(r)
      Cat(xs) == FoldLeft(LAMBDA a, x : a \o x, <<>>, xs)
  IN IF CVariant = "slices_swapped" THEN CompactEnc(FromNat(r.len, 4)) \o Cat(sl[2]) \o Cat(sl[1])
     ELSE CompactEnc(FromNat(r.len, 4)) \o Cat(sl[1]) \o Cat(sl[2])

DequeLayoutFree == RingEncode(ring) = Enc(E0, DequeT, RingLogical(ring))
GhostAgrees == RingLogical(ring) = Logical(E0, DequeT, hist)
MapOrderFree == /\ map = Logical(E0, MapT, mhist)
                /\ StrictlyIncreasing(LAMBDA x, y : Less(E0, U8T, x[1], y[1]), map)
                /\ Dec(E0, MapT, Enc(E0, MapT, map), 0).v = map
\* what the bit-sequence encoder writes (one-byte words, most significant bit first): the logical bits re-chunked from
\* the logical start and padded with zeros - not the storage words as they are
BitsEncode(b) ==
  LET lg == BitsLogical(b)
      nw == BitWords(b.len, 1)
      bit(i) == IF i <= b.len THEN lg[i]
                ELSE IF CVariant = "bits_raw_words" /\ b.head + i <= Len(b.bits) THEN b.bits[b.head + i] ELSE 0
      byte(q) == FoldLeft(LAMBDA a, j : 2 * a + bit(8 * (q - 1) + j), 0, <<1, 2, 3, 4, 5, 6, 7, 8>>)
  IN CompactEnc(FromNat(b.len, 4)) \o [q \in 1..nw |-> byte(q)]
BitsStoreFree == BitsEncode(bits) = Enc(E0, BitsT, BitsLogical(bits))
\* the encoder sees only the logical bits: whatever lies outside them in the store is not encoded
BitsOffsetFree ==
  LET lg == BitsLogical(bits)
      e == Enc(E0, BitsT, lg)
  IN /\ Match(E0, BitsT, lg, e, 0) = Len(e)
     /\ Dec(E0, BitsT, e, 0).v = lg
     /\ Len(e) = 1 + BitWords(Len(lg), 1)
=============================================================================
