SPECIFICATION Spec
CONSTANT CVariant = "slices_swapped"
CONSTANT MaxOps = 6
VIEW view
INVARIANT DequeLayoutFree
INVARIANT GhostAgrees
INVARIANT MapOrderFree
INVARIANT BitsOffsetFree
INVARIANT BitsStoreFree
CHECK_DEADLOCK FALSE
