SPECIFICATION Spec
CONSTANT MaxOps = 6
INVARIANT DequeLayoutFree
INVARIANT GhostAgrees
INVARIANT MapOrderFree
INVARIANT BitsOffsetFree
CHECK_DEADLOCK FALSE
