----------------------------- MODULE MC_Decoder -----------------------------
(***************************************************************************)
(* DESIGN CHECK of the implementation-shaped decoder machine against the   *)
(* requirement layer, on every short input over a boundary alphabet, for a *)
(* set of small-alphabet types, every input flavour (known / unknown       *)
(* remaining length) and wrapper configuration (depth limit, memory limit, *)
(* counting).                                                              *)
(*                                                                         *)
(*   Refines        a finished machine holds exactly Dec(ty, input)  (C03, *)
(*                  C08: the same for every configuration)                 *)
(*   ErrSound       the machine fails for lack/invalidity of data only if  *)
(*                  Dec rejects                                            *)
(*   DepthLimit     transparent; fails with "depth" only if the limit is   *)
(*                  below the observed depth; never when the limit is at   *)
(*                  least MaxDepth; always when it is below MinDepth (C11) *)
(*   MemLimit       threshold equations and the HeapPayload envelope (C12) *)
(*   Counted        count = min(bytes delivered, CMax) at every step (C19) *)
(*   HeapBounded    heap held <= linear in bytes delivered plus one chunk  *)
(*                  per nesting level, also when the length is unknown and *)
(*                  the claimed count is huge (C09)                        *)
(*   Balanced       descents and ascents balance on success (C11)          *)
(*   Terminates     every behaviour reaches ok or err within a bounded     *)
(*                  number of steps (C03)                                  *)
(***************************************************************************)
EXTENDS TypeLib, Decoder

CONSTANT Tier

VARIABLES cfg, m, steps
vars == <<cfg, m, steps>>

\* "long": fewer symbols, longer inputs (several elements, nested sequences, chunk boundaries with ChunkBytes = 4)
\* "chunk": sequences only, inputs long enough to deliver more than one chunk behind a two-byte count
\* (<<253, 255>> = 16383, <<253, 1>> = 127) - what the claimed rest may cost once real data has arrived
Alpha == CASE Tier = "quick" -> {0, 1, 2, 4, 8, 253, 255}
           [] Tier = "long" -> {0, 4, 8, 255}
           [] Tier = "chunk" -> {0, 1, 253, 255}
           [] OTHER -> {0, 1, 2, 3, 4, 8, 64, 252, 253, 255}
MaxInput == CASE Tier = "long" -> 6 [] Tier = "chunk" -> 8 [] OTHER -> 3
Inputs == UNION { [1..n -> Alpha] : n \in 0..MaxInput }

BoxU16 == TPtr(U16, "box")
SeqTypes == { TStr, TSeq(U8, "vec"), TSeq(U16, "vec"), TSeq(U8, "deque"), TSeq(TSeq(U8, "vec"), "vec"), TSeq(TOption(U8), "vec"),
              TTuple(<<U8, TSeq(U8, "vec")>>), TBits(1, "lsb0") }
AllTypes == { U8, U16, TBool, TUnit, TOptBool, TCompact(1), TCompact(2), TCompact(4), TNonZero(1, FALSE),
           TOption(TBool), TOption(U16), TResult(U8, TBool), TStr,
           TSeq(U8, "vec"), TSeq(U16, "vec"), TSeq(TBool, "vec"), TSeq(TUnit, "vec"), TSeq(TTwin(1, FALSE), "vec"),
           TSeq(U8, "list"), TSeq(U8, "heap"), TSeq(TOption(U8), "deque"),
           TSeq(TSeq(U8, "vec"), "vec"), TSeq(BoxU16, "vec"),
           TMap(U8, TBool), TSet(U8), TMap(U8, TSeq(U8, "vec")),
           TArray(U8, 2), TArray(TBool, 2), TArray(BoxU16, 1),
           TTuple(<<U8, TBool>>), TTuple(<<TCompact(4), TSeq(U8, "vec")>>),
           BoxU16, TPtr(TSeq(U8, "vec"), "rc"), TPtr(TUnit, "box"), TPtr(TPtr(U8, "box"), "arc"),
           TBits(1, "lsb0"), TBits(2, "msb0"),
           TEnum(<<TVariant(0, <<>>), TVariant(1, <<U8>>), TVariant(4, <<TBool, TSeq(U8, "vec")>>)>>) }
Types == IF Tier = "chunk" THEN SeqTypes ELSE AllTypes
RecTypes == IF Tier = "chunk" THEN {} ELSE { TNamed("RV"), TNamed("RB"), TNamed("Tree") }

DLims == CASE Tier = "quick" -> {-1, 0, 1} [] Tier \in {"long", "chunk"} -> {-1, 1} [] OTHER -> {-1, 0, 1, 2}
MLims == CASE Tier = "quick" -> {-1, 0, 2, 9} [] Tier \in {"long", "chunk"} -> {-1, 6} [] OTHER -> {-1, 0, 1, 2, 4, 9}

\* the node estimate the code announces for ordered maps/sets (btree_utils.rs, with the real constants) stays within the
\* factor two the property allows, for every length up to 5000 and a range of entry sizes
RoundUp8(x) == ((x + 7) \div 8) * 8
RealTreeEst(n, esz) == IF n = 0 THEN 0
                       ELSE LET leaf == RoundUp8(12 + 11 * esz)  nodes == n \div 10 IN
                            IF nodes = 0 THEN leaf ELSE nodes * (leaf + 96)
ASSUME \A n \in 0..5000 : \A esz \in {1, 2, 4, 8, 16, 24, 32, 100, 1000} : 2 * RealTreeEst(n, esz) >= n * esz

Init ==
  /\ \/ \E t \in Types : \E i \in Inputs : \E kn \in BOOLEAN : \E dl \in DLims : \E ml \in MLims : \E ct \in BOOLEAN :
          cfg = [E |-> E0, ty |-> t, inp |-> i, known |-> kn, dlim |-> dl, mlim |-> ml, counted |-> ct]
     \/ \E t \in RecTypes : \E i \in Inputs : \E dl \in DLims : \E ml \in {-1, 9} :
          cfg = [E |-> ERec, ty |-> t, inp |-> i, known |-> TRUE, dlim |-> dl, mlim |-> ml, counted |-> TRUE]
  /\ m = InitM(cfg)
  /\ steps = 0

Next == m.status = "run" /\ m' = Step(cfg, m) /\ steps' = steps + 1 /\ UNCHANGED cfg
Spec == Init /\ [][Next]_vars

Spc == Dec(cfg.E, cfg.ty, cfg.inp, 0)

Refines == m.status = "ok" => /\ Spc.ok /\ m.vs = <<Spc.v>> /\ m.pos = Spc.p
ErrSound == (m.status = "err" /\ m.why = "data") => ~Spc.ok
\* a limit error is reported only by a wrapper that is present and binding
LimitSound == /\ m.why = "depth" => cfg.dlim # -1 /\ m.depth > cfg.dlim
              /\ m.why = "mem" => cfg.mlim # -1 /\ m.used >= cfg.mlim
DepthLimit ==
  Spc.ok =>
    /\ (m.status = "ok") => DepthEnvelope(cfg.E, cfg.ty, Spc.v, m.dmax)
    /\ (cfg.dlim # -1 /\ cfg.dlim >= MaxDepth(cfg.E, cfg.ty, Spc.v)) => m.why # "depth"
    /\ (cfg.dlim # -1 /\ cfg.dlim < MinDepth(cfg.E, cfg.ty, Spc.v)) => m.status # "ok"
MemLimit ==
  (m.status = "ok" /\ Spc.ok) =>
     /\ m.used >= HeapPayload(cfg.E, cfg.ty, Spc.v)
     /\ (HeapFree(cfg.E, cfg.ty, Spc.v) => m.used = 0)
     /\ (cfg.mlim # -1 => (m.used < cfg.mlim \/ m.nal = 0))
Counted == cfg.counted => m.count = MinOf(m.pos, CMax)
Balanced == m.status = "ok" => m.depth = 0
\* scaled C09 envelope: per byte delivered at most 2*maxsz+24 (vector doubling / node overhead), plus one chunk and one
\* boxed value per nesting level
MS == 8
HeapBounded == m.heap <= (2 * MS + 24) * (m.pos + 1) + (ChunkBytes + MS) * (m.depth + 1)
\* Termination as a safety property: a running machine always has a successor (Step is total) and
\* the number of steps is bounded by a variant - a fixed number of steps per input byte and per
\* frame of the type - so every behaviour is finite and ends in "ok" or "err".
\* (A temporal formulation <>(m.status # "run") made this TLC build stop without a diagnosis
\* on the 7*10^5 initial states; the variant is what that property rests on anyway.)
Terminates == steps <= 30 + 12 * Len(cfg.inp)
=============================================================================
