SPECIFICATION Spec
CONSTANT Tier = "chunk"
CONSTANT ChunkBytes = 4
CONSTANT CMax = 2
CONSTANT Variant = "faithful"
INVARIANT Refines
INVARIANT ErrSound
INVARIANT LimitSound
INVARIANT DepthLimit
INVARIANT MemLimit
INVARIANT Counted
INVARIANT Balanced
INVARIANT HeapBounded
INVARIANT Terminates
CHECK_DEADLOCK FALSE
