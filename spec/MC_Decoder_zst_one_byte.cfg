SPECIFICATION Spec
CONSTANT Tier = "quick"
CONSTANT ChunkBytes = 4
CONSTANT CMax = 2
CONSTANT Variant = "zst_one_byte"
INVARIANT Refines
INVARIANT ErrSound
INVARIANT LimitSound
INVARIANT DepthLimit
INVARIANT MemLimit
INVARIANT Counted
INVARIANT Balanced
INVARIANT HeapBounded
INVARIANT Terminates
CHECK_DEADLOCK FALSE
