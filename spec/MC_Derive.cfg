SPECIFICATION Spec
CONSTANT Mode = "fixed"
CONSTANT IntoMode = "faithful"
CONSTANT Tier = "quick"
INVARIANT LayoutRoundTrip
INVARIANT IndexInjective
INVARIANT Terminates
INVARIANT MelSound
CHECK_DEADLOCK FALSE
