------------------------------ MODULE MC_Derive ------------------------------
(***************************************************************************)
(* DESIGN CHECK of the derive model over a bounded grammar of definitions  *)
(* (C05, C13) and generator of programs for the conformance runs (C05,     *)
(* C17).                                                                   *)
(*                                                                         *)
(*   LayoutRoundTrip   Valid(def) => Dec(Layout, Enc(Layout, v)) = v for   *)
(*                     the bounded values of the layout                    *)
(*   IndexInjective    distinct encodable variants have distinct index     *)
(*                     bytes; an index byte naming no variant is rejected  *)
(*   Terminates        every Encode entry point of a valid definition      *)
(*                     reaches an overridden method (Mode = "legacy"       *)
(*                     reproduces the all-variants-skipped recursion)      *)
(*   MelSound          ImplMel(Mode, def) >= MaxLen(Layout(def))           *)
(*                     (Mode = "legacy": struct {#[codec(compact)] u32})   *)
(*   FastPathSound     (ASSUME over all transparent definitions) whenever  *)
(*                     the in-place fast path is taken it reads exactly    *)
(*                     the layout; IntoMode = ignore_compact / demorgan /  *)
(*                     skip_zst are refuted                                *)
(***************************************************************************)
EXTENDS Derive

CONSTANTS Mode, Tier, IntoMode, EncMode

Attrs == {"none", "skip", "compact", "encoded_as"}
Fields == { [ty |-> t, attr |-> a] : t \in {"u8", "u32", "vecu8", "optu16", "gen", "vecgen"}, a \in {"none", "skip"} }
          \cup { [ty |-> t, attr |-> a] : t \in {"u8", "u32", "u64"}, a \in {"compact", "encoded_as"} }
          \cup { [ty |-> "gen", attr |-> "compact"] }
FewFields == { [ty |-> "u8", attr |-> "none"], [ty |-> "u32", attr |-> "compact"], [ty |-> "vecu8", attr |-> "none"],
               [ty |-> "u16", attr |-> "skip"], [ty |-> "gen", attr |-> "none"], [ty |-> "gen", attr |-> "compact"] }
FieldSeqs == { <<>> } \cup { <<a>> : a \in Fields } \cup { <<a, b>> : a \in FewFields, b \in FewFields }
             \cup { <<a, b, c>> : a \in FewFields, b \in {[ty |-> "u16", attr |-> "skip"], [ty |-> "optu16", attr |-> "none"]}, c \in FewFields }
Structs == { [kind |-> "struct", shape |-> sh, transparent |-> FALSE, fs |-> fs] :
               sh \in {"named", "tuple"}, fs \in FieldSeqs \ {<<>>} }
           \cup { [kind |-> "struct", shape |-> "unit", transparent |-> FALSE, fs |-> <<>>] }
           \cup { [kind |-> "struct", shape |-> "tuple", transparent |-> TRUE, fs |-> <<a>>] :
                    a \in {[ty |-> "u32", attr |-> "none"], [ty |-> "u64", attr |-> "compact"], [ty |-> "vecu8", attr |-> "none"]} }

IdxVals == IF Tier = "quick" THEN {0, 1, 2, 255} ELSE {0, 1, 2, 3, 254, 255}
VariantFs == { <<>>, <<[ty |-> "u8", attr |-> "none"]>>, <<[ty |-> "u32", attr |-> "compact"], [ty |-> "vecu8", attr |-> "none"]>>,
               <<[ty |-> "u32", attr |-> "none"]>>, <<[ty |-> "u32", attr |-> "compact"]>> }     \* same type, different wire form
\* data-carrying variants: index from attribute, explicit discriminant (the enum then carries #[repr(u8)]) or position
DataVariants == { [src |-> s, val |-> v, skip |-> sk, fs |-> fs] :
                    s \in {"none", "attr", "disc"}, v \in IdxVals, sk \in BOOLEAN, fs \in VariantFs }    \* ("disc": #[repr(u8)] enum)
\* unit variants: also explicit discriminants
UnitVariants == { [src |-> s, val |-> v, skip |-> sk, fs |-> <<>>] :
                    s \in {"none", "attr", "disc"}, v \in IdxVals, sk \in BOOLEAN }
Canon(vr) == IF vr.src = "none" THEN [vr EXCEPT !.val = 0] ELSE vr
DV == { Canon(x) : x \in DataVariants }
UV == { Canon(x) : x \in UnitVariants }
Enums ==
     { [kind |-> "enum", vs |-> <<a>>] : a \in DV \cup UV }
\cup { [kind |-> "enum", vs |-> <<a, b>>] : a \in DV, b \in DV }
\cup { [kind |-> "enum", vs |-> <<a, b>>] : a \in UV, b \in UV }
\cup { [kind |-> "enum", vs |-> <<a, b, c>>] : a \in UV, b \in UV, c \in UV }
\cup { [kind |-> "enum", vs |-> <<a, b, c>>] :
         a \in { x \in DV : Len(x.fs) = 1 }, b \in { x \in DV : Len(x.fs) = 0 }, c \in { x \in DV : Len(x.fs) = 2 /\ ~x.skip } }

Defs == Structs \cup { d \in Enums : RustValid(d) }

\* transparent structs: one data field (any attribute) plus up to one zero-sized field on either side
ZstFields == { [ty |-> "unit0", attr |-> "none"], [ty |-> "unit1", attr |-> "none"] }
DataFields == { [ty |-> "u32", attr |-> "none"], [ty |-> "u64", attr |-> "compact"], [ty |-> "u32", attr |-> "encoded_as"],
                [ty |-> "vecu8", attr |-> "none"] }
TranspDefs == { [kind |-> "struct", shape |-> "named", transparent |-> TRUE, fs |-> fs] :
                  fs \in { <<d>> : d \in DataFields } \cup { <<d, z>> : d \in DataFields, z \in ZstFields }
                        \cup { <<z, d>> : d \in DataFields, z \in ZstFields } \cup { <<z>> : z \in ZstFields } }
ASSUME \A d \in TranspDefs : FastPathSound(IntoMode, d)
\* every field form goes out in its selected representation on the multi-field encode path
ASSUME \A t \in {"u8", "u32", "u64"} : \A a \in {"none", "compact", "encoded_as", "encoded_as_wide"} :
          EncArmsSound(EncMode, [ty |-> t, attr |-> a])

VARIABLES def, v, stage
vars == <<def, v, stage>>

LayoutVals(d) == Vals(E0, Layout(d), 0)

Init ==
  /\ def \in { d \in Defs : Valid(d) }
  /\ stage = "encode"
  /\ IF def.kind = "enum" /\ NonSkipped(def) = {}
     THEN v = <<>>                     \* only skipped variants: no encodable value
     ELSE v \in LayoutVals(def)

Next == /\ stage = "encode" /\ stage' = "decode" /\ UNCHANGED <<def, v>>
Spec == Init /\ [][Next]_vars

HasValue == ~(def.kind = "enum" /\ NonSkipped(def) = {})

LayoutRoundTrip ==
  (stage = "decode" /\ HasValue) =>
     LET ly == Layout(def)
         b == Enc(E0, ly, v)
         d == Dec(E0, ly, b \o <<7>>, 0)
     IN d.ok /\ d.v = v /\ d.p = Len(b) /\ Match(E0, ly, v, b, 0) = Len(b)

IndexInjective ==
  def.kind = "enum" =>
     LET ly == Layout(def) IN
     /\ \A a, b \in 1..Len(ly.vs) : a # b => ly.vs[a].i # ly.vs[b].i
     /\ \A a \in 1..Len(ly.vs) : ly.vs[a].i \in 0..255
     /\ \A byte \in {0, 1, 2, 3, 4, 254, 255} :
          (~\E a \in 1..Len(ly.vs) : ly.vs[a].i = byte) => ~Dec(E0, ly, <<byte, 0, 0, 0, 0, 0, 0>>, 0).ok

Terminates == EntryTerminates(Mode, def)

MelSound ==
  LET ly == Layout(def)
      mx == MaxLen(E0, ly)
      im == ImplMel(Mode, def)
  IN (mx # -1 /\ im # -1) => im >= mx
=============================================================================
