SPECIFICATION Spec
CONSTANT Mode = "fixed"
CONSTANT IntoMode = "faithful"
CONSTANT EncMode = "merged_arms"
CONSTANT Tier = "quick"
INVARIANT LayoutRoundTrip
INVARIANT IndexInjective
INVARIANT Terminates
INVARIANT MelSound
CHECK_DEADLOCK FALSE
