SPECIFICATION Spec
CONSTANT Mode = "fixed"
CONSTANT IntoMode = "ignore_compact"
CONSTANT EncMode = "faithful"
CONSTANT Tier = "quick"
INVARIANT LayoutRoundTrip
INVARIANT IndexInjective
INVARIANT Terminates
INVARIANT MelSound
CHECK_DEADLOCK FALSE
