SPECIFICATION Spec
CONSTANT Mode = "fixed"
CONSTANT IntoMode = "skip_zst"
CONSTANT EncMode = "faithful"
CONSTANT Tier = "quick"
INVARIANT LayoutRoundTrip
INVARIANT IndexInjective
INVARIANT Terminates
INVARIANT MelSound
CHECK_DEADLOCK FALSE
