SPECIFICATION Spec
CONSTANT Mode = "legacy"
CONSTANT Tier = "quick"
INVARIANT LayoutRoundTrip
INVARIANT IndexInjective
INVARIANT Terminates
INVARIANT MelSound
CHECK_DEADLOCK FALSE
