SPECIFICATION Spec
CONSTANT Mode = "mel_dedup"
CONSTANT IntoMode = "faithful"
CONSTANT EncMode = "faithful"
CONSTANT Tier = "quick"
INVARIANT LayoutRoundTrip
INVARIANT IndexInjective
INVARIANT Terminates
INVARIANT MelSound
CHECK_DEADLOCK FALSE
