SPECIFICATION Spec
CONSTANT Mode = "fixed"
CONSTANT IntoMode = "faithful"
CONSTANT EncMode = "faithful"
CONSTANT Tier = "thorough"
INVARIANT LayoutRoundTrip
INVARIANT IndexInjective
INVARIANT Terminates
INVARIANT MelSound
CHECK_DEADLOCK FALSE
