SPECIFICATION Spec
CONSTANT Mode = "fixed"
CONSTANT Tier = "thorough"
INVARIANT LayoutRoundTrip
INVARIANT IndexInjective
INVARIANT Terminates
INVARIANT MelSound
CHECK_DEADLOCK FALSE
