SPECIFICATION Spec
CONSTANT EVariant = "faithful"
CONSTANT Tier = "quick"
INVARIANT StreamIsEnc
INVARIANT SizeIsLen
INVARIANT Dispatch
CHECK_DEADLOCK FALSE
