------------------------------ MODULE MC_Encoder ------------------------------
(***************************************************************************)
(* DESIGN CHECK for C07 on the bounded (type, value) universe of TypeLib:  *)
(*   StreamIsEnc     the concatenation of the Output calls is Enc(ty, v)   *)
(*                   for every ring-buffer split of a deque (bulk = per    *)
(*                   element)                                              *)
(*   SizeIsLen       the size-only computation is Len(Enc(ty, v))          *)
(*   Dispatch        every entry point of every implementor reaches an     *)
(*                   overridden method                                     *)
(***************************************************************************)
EXTENDS TypeLib, Encoder
CONSTANT Tier
VARIABLES env, ty, v, split
vars == <<env, ty, v, split>>

Types == (IF Tier = "quick" THEN Leaves \cup Level1 ELSE Leaves \cup Level1 \cup Level2)
         \cup { TSeq(U16, "deque"), TSeq(U32, "deque"), TSeq(TStr, "deque"), TArray(U32, 3), TSeq(TTwin(2, FALSE), "vec") }
Init ==
  \/ /\ env = E0 /\ ty \in Types /\ v \in Vals(E0, ty, 1) /\ split \in 0..2
  \/ /\ env = ERec /\ ty \in { TNamed("RV"), TNamed("Tree") } /\ v \in Vals(ERec, ty, 3) /\ split = 0
Next == UNCHANGED vars
Spec == Init /\ [][Next]_vars

StreamIsEnc == Cat(Writes(env, ty, v, split)) = Enc(env, ty, v)
SizeIsLen == SizeOnly(env, ty, v, split) = Len(Enc(env, ty, v))
Dispatch == DispatchTerminates(Resolve(env, ty))
=============================================================================
