SPECIFICATION Spec
CONSTANT EVariant = "bits_per_byte"
CONSTANT Tier = "quick"
INVARIANT StreamIsEnc
INVARIANT SizeIsLen
INVARIANT Dispatch
CHECK_DEADLOCK FALSE
