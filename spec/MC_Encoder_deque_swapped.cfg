SPECIFICATION Spec
CONSTANT EVariant = "deque_swapped"
CONSTANT Tier = "quick"
INVARIANT StreamIsEnc
INVARIANT SizeIsLen
INVARIANT Dispatch
CHECK_DEADLOCK FALSE
