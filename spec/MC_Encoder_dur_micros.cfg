SPECIFICATION Spec
CONSTANT EVariant = "dur_micros"
CONSTANT Tier = "quick"
INVARIANT StreamIsEnc
INVARIANT SizeIsLen
INVARIANT Dispatch
CHECK_DEADLOCK FALSE
