SPECIFICATION Spec
CONSTANT EVariant = "single_override"
CONSTANT Tier = "quick"
INVARIANT StreamIsEnc
INVARIANT SizeIsLen
INVARIANT Dispatch
CHECK_DEADLOCK FALSE
