SPECIFICATION Spec
CONSTANT Tier = "thorough"
INVARIANT StreamIsEnc
INVARIANT SizeIsLen
INVARIANT Dispatch
CHECK_DEADLOCK FALSE
