SPECIFICATION Spec
CONSTANT Tier = "quick"
INVARIANT MatchIsEnc
INVARIANT RoundTrip
INVARIANT PrefixFree
INVARIANT LenBounds
INVARIANT Canonical
INVARIANT DepthMem
INVARIANT Concat
INVARIANT ConsumeAll
CHECK_DEADLOCK FALSE
