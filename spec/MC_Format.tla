------------------------------ MODULE MC_Format ------------------------------
(***************************************************************************)
(* DESIGN CHECK of the requirement layer on a bounded universe of          *)
(* (type, value) pairs: the algebra the listed properties demand of the    *)
(* SCALE format itself.                                                    *)
(*                                                                         *)
(*   MatchIsEnc   Match(ty,v,s) succeeds on Enc(ty,v) and on no one-byte   *)
(*                mutation of it (C01: Match is the streaming twin of Enc) *)
(*   RoundTrip    Dec(Enc(v) \o tail) = v consuming exactly Len(Enc(v))    *)
(*                for every tail (C02)                                     *)
(*   PrefixFree   no strict prefix of Enc(v) decodes (C14)                 *)
(*   LenBounds    MinLen <= Len(Enc(v)) <= MaxLen, = FixedLen (C13, C18)   *)
(*   Canonical    a one-byte mutation decoding to the same value with the  *)
(*                same length is impossible, except in padding bits (C03)  *)
(*   DepthMem     MinDepth <= MaxDepth, HeapFree => HeapPayload = 0        *)
(*   Concat       a value decoded from a concatenation ends exactly where  *)
(*                the next encoding begins (C14)                           *)
(*   ConsumeAll   DecExact accepts the encoding and no extension of it     *)
(*                                                                         *)
(* The machine: pick (ty, v); encode; walk the cut position k over the     *)
(* encoding.  Invariants are evaluated at every cut.                       *)
(***************************************************************************)
EXTENDS TypeLib

CONSTANT Tier      \* "quick" | "thorough"

VARIABLES env, ty, v, b, k
vars == <<env, ty, v, b, k>>

Tails == { <<>>, <<0>>, <<255>>, <<1, 2, 3>> }

Types == IF Tier = "quick" THEN Leaves \cup Level1 \cup Level2 ELSE Leaves \cup Level1 \cup Level2 \cup Level3
RecTypes == { TNamed("RV"), TNamed("RB"), TNamed("Tree") }

Init ==
  \/ /\ env = E0
     /\ ty \in Types
     /\ v \in Vals(E0, ty, 1)
     /\ b = Enc(E0, ty, v)
     /\ k = 0
  \/ /\ env = ERec
     /\ ty \in RecTypes
     /\ v \in Vals(ERec, ty, 3)
     /\ b = Enc(ERec, ty, v)
     /\ k = 0

Next == k < Len(b) /\ k' = k + 1 /\ UNCHANGED <<env, ty, v, b>>

Spec == Init /\ [][Next]_vars

Mut(s, i) == [s EXCEPT ![i] = (@ + 1) % 256]

MatchIsEnc ==
  /\ Match(env, ty, v, b, 0) = Len(b)
  /\ k >= 1 => Match(env, ty, v, Mut(b, k), 0) # Len(b)

RoundTrip ==
  k = 0 => \A t \in Tails :
     LET d == Dec(env, ty, b \o t, 0) IN d.ok /\ d.v = v /\ d.p = Len(b)

PrefixFree == k < Len(b) => ~Dec(env, ty, SubSeq(b, 1, k), 0).ok

LenBounds ==
  k = 0 => LET rt == Resolve(env, ty) IN
           /\ MinLen(env, rt) <= Len(b)
           /\ MaxLen(env, rt) = -1 \/ Len(b) <= MaxLen(env, rt)
           /\ FixedLen(env, rt) # -1 => Len(b) = FixedLen(env, rt)
           /\ IsZeroLen(env, rt) <=> MaxLen(env, rt) = 0
           /\ MinLen(env, rt) = 0 <=> MaxLen(env, rt) = 0

\* bit sequences ignore padding bits on decode: the only non-canonical accepted bytes
RECURSIVE HasBits(_)
HasBits(t) ==
  CASE t.k = "bits" -> TRUE
    [] t.k \in {"option", "seq", "set", "array", "ptr"} -> HasBits(t.t)
    [] t.k = "map" -> HasBits(t.key) \/ HasBits(t.val)
    [] t.k = "tuple" -> \E i \in 1..Len(t.ts) : HasBits(t.ts[i])
    [] OTHER -> FALSE
Canonical ==
  (k >= 1 /\ ~HasBits(ty) /\ ~HasHeap(env, ty)) =>
     LET d == Dec(env, ty, Mut(b, k), 0) IN ~(d.ok /\ d.v = v /\ d.p = Len(b))

\* C14: a following encoding is found exactly behind this one; consume-all accepts the exact encoding only
Concat ==
  k = 0 => LET b2 == Enc(E0, TStr, <<97>>)
               whole == b \o b2
           IN /\ Dec(env, ty, whole, 0).p = Len(b)
              /\ Dec(E0, TStr, whole, Len(b)) = Ok(<<97>>, Len(whole))
ConsumeAll ==
  k = 0 => /\ DecExact(env, ty, b).ok /\ DecExact(env, ty, b).v = v
           /\ \A t \in Tails \ {<<>>} : ~DecExact(env, ty, b \o t).ok

DepthMem ==
  k = 0 => /\ MinDepth(env, ty, v) <= MaxDepth(env, ty, v)
           /\ HeapFree(env, ty, v) => HeapPayload(env, ty, v) = 0
=============================================================================
