SPECIFICATION Spec
CONSTANT Data <- D5
CONSTANT MaxChunk = 3
CONSTANT AVariant = "fill_at_zero"
INVARIANT ReadLikeSlice
INVARIANT ReadExact
INVARIANT ReadContent
INVARIANT WriteComplete
CHECK_DEADLOCK FALSE
