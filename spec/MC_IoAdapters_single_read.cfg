SPECIFICATION Spec
CONSTANT Data <- D5
CONSTANT MaxChunk = 3
CONSTANT AVariant = "single_read"
INVARIANT ReadLikeSlice
INVARIANT ReadExact
INVARIANT ReadContent
INVARIANT WriteComplete
CHECK_DEADLOCK FALSE
