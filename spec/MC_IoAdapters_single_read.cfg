SPECIFICATION Spec
CONSTANT Data <- D5
CONSTANT MaxChunk = 3
CONSTANT AVariant = "single_read"
INVARIANT ReadLikeSlice
INVARIANT ReadExact
INVARIANT WriteComplete
CHECK_DEADLOCK FALSE
