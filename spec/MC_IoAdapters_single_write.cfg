SPECIFICATION Spec
CONSTANT Data <- D5
CONSTANT MaxChunk = 3
CONSTANT AVariant = "single_write"
INVARIANT ReadLikeSlice
INVARIANT ReadExact
INVARIANT ReadContent
INVARIANT WriteComplete
CHECK_DEADLOCK FALSE
