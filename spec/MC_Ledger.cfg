SPECIFICATION Spec
CONSTANT MaxN = 4
CONSTANT Guard = "correct"
INVARIANT ExactlyOnce
INVARIANT OnlyConstructed
INVARIANT FailedReleasesAll
INVARIANT HandedOverWhole
INVARIANT ReleasedAll
PROPERTY Terminates
CHECK_DEADLOCK FALSE
