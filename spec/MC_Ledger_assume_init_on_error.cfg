SPECIFICATION Spec
CONSTANT MaxN = 4
CONSTANT BoxOrder = "faithful"
CONSTANT Guard = "assume_init_on_error"
INVARIANT ExactlyOnce
INVARIANT OnlyConstructed
INVARIANT FailedReleasesAll
INVARIANT HandedOverWhole
INVARIANT ReleasedAll
INVARIANT NoBlockLeak
PROPERTY Terminates
CHECK_DEADLOCK FALSE
