SPECIFICATION Spec
CONSTANT MaxN = 4
CONSTANT BoxOrder = "alloc_before_hook"
CONSTANT Guard = "correct"
INVARIANT ExactlyOnce
INVARIANT OnlyConstructed
INVARIANT FailedReleasesAll
INVARIANT HandedOverWhole
INVARIANT ReleasedAll
INVARIANT NoBlockLeak
PROPERTY Terminates
CHECK_DEADLOCK FALSE
