SPECIFICATION Spec
CONSTANT MaxN = 4
CONSTANT Guard = "count_before"
INVARIANT ExactlyOnce
INVARIANT OnlyConstructed
INVARIANT FailedReleasesAll
INVARIANT HandedOverWhole
INVARIANT ReleasedAll
PROPERTY Terminates
CHECK_DEADLOCK FALSE
