SPECIFICATION Spec
CONSTANT MaxN = 4
CONSTANT Guard = "no_guard"
INVARIANT ExactlyOnce
INVARIANT OnlyConstructed
INVARIANT FailedReleasesAll
INVARIANT HandedOverWhole
INVARIANT ReleasedAll
PROPERTY Terminates
CHECK_DEADLOCK FALSE
