SPECIFICATION Spec
CONSTANT MaxN = 4
CONSTANT BoxOrder = "faithful"
CONSTANT Guard = "set_len_first"
INVARIANT ExactlyOnce
INVARIANT OnlyConstructed
INVARIANT FailedReleasesAll
INVARIANT HandedOverWhole
INVARIANT ReleasedAll
INVARIANT NoBlockLeak
PROPERTY Terminates
CHECK_DEADLOCK FALSE
