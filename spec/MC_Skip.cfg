SPECIFICATION Spec
CONSTANT Tier = "quick"
CONSTANT SVariant = "faithful"
INVARIANT SkipAgrees
INVARIANT FixedSound
INVARIANT LenAgrees
CHECK_DEADLOCK FALSE
