------------------------------ MODULE MC_Skip ------------------------------
(***************************************************************************)
(* DESIGN CHECK of Skip against the requirement layer (property C18, and   *)
(* the fixed-size half of C13):                                            *)
(*                                                                         *)
(*   SkipAgrees   on every input, ImplSkip succeeds exactly when Dec does  *)
(*                and stops where Dec stops                                *)
(*   FixedSound   a reported fixed size is the length of every encoding    *)
(*                (= FixedLen of the requirement layer)                    *)
(*   LenAgrees    on the encoding of a value (plus any tail) ImplLen is    *)
(*                the element count; on any input it succeeds whenever     *)
(*                decoding succeeds, with the decoded count                *)
(*                                                                         *)
(* Universe: the types of TypeLib that skipping distinguishes, every input *)
(* of length <= MaxInput over a boundary alphabet, plus the count-class    *)
(* edges 63/64, 16383/16384, 2^30-1/2^30 as prefixes.                      *)
(***************************************************************************)
EXTENDS TypeLib, Skip

CONSTANT Tier

VARIABLES ty, inp
vars == <<ty, inp>>

Alpha == IF Tier = "quick" THEN {0, 1, 2, 3, 4, 63, 255} ELSE {0, 1, 2, 3, 4, 8, 63, 64, 252, 253, 255}
MaxInput == IF Tier = "quick" THEN 3 ELSE 4
Short == UNION { [1..n -> Alpha] : n \in 0..MaxInput }
\* count prefixes at the class edges, in every mode (canonical and not), followed by nothing or two bytes
Edges == { <<252>>, <<1, 1>>, <<253, 255>>, <<2, 0, 1, 0>>, <<1, 0>>, <<2, 0, 0, 0>>, <<254, 255, 255, 255>>,
           <<3, 0, 0, 0, 64>>, <<3, 0, 0, 0, 63>>, <<3, 0, 0, 0, 1>>, <<3, 255, 255, 255, 255>>, <<7, 0, 0, 0, 0, 1>> }
Inputs == Short \cup Edges \cup { e \o <<1, 0>> : e \in Edges }

\* a user type with a hand-written codec declaring its fixed size: 3 bytes on the wire, 4 in memory
THdr == [k |-> "tuple", ts |-> <<U8, U16>>, sz |-> 4, fx |-> 3]
Types == { THdr, TArray(THdr, 2), TArray(TArray(THdr, 1), 2), U8, U16, U32, TTwin(2, FALSE), TBool, TUnit, TOptBool, TCompact(1), TCompact(4), TCompact(8), TCompact(16),
           TNonZero(1, FALSE), TDuration, TStr,
           TArray(U8, 2), TArray(U16, 2), TArray(TBool, 2), TArray(TBool, 0), TArray(TArray(TBool, 2), 2), TArray(TArray(U16, 1), 2),
           TArray(TTwin(2, FALSE), 2), TArray(TOption(TBool), 2), TArray(TUnit, 3), TArray(TSeq(U8, "vec"), 2),
           TOption(TBool), TOption(TArray(TBool, 2)), TResult(U8, TBool), TTuple(<<U16, TBool>>), TTuple(<<TArray(TBool, 2), U8>>),
           TSeq(U8, "vec"), TSeq(TBool, "vec"), TSeq(TUnit, "vec"), TSeq(U16, "deque"), TSeq(U8, "list"), TSeq(TUnit, "list"), TSeq(U8, "heap"),
           TSeq(TArray(TBool, 2), "vec"),
           TSet(U8), TMap(U8, TBool), TTuple(<<TSeq(U8, "vec"), U8>>), TTuple(<<TSeq(TUnit, "vec"), TUnit>>), TTuple(<<TMap(U8, TBool)>>),
           TPtr(TArray(TBool, 2), "box"), TBits(1, "lsb0"),
           TEnum(<<TVariant(0, <<>>), TVariant(1, <<TArray(TBool, 2)>>), TVariant(5, <<U16>>)>>) }

Init == ty \in Types /\ inp \in Inputs
Next == FALSE /\ UNCHANGED vars
Spec == Init /\ [][Next]_vars

D == Dec(E0, ty, inp, 0)
SkipAgrees ==
  LET s == ImplSkip(E0, ty, inp, 0) IN
  /\ s.ok = D.ok
  /\ D.ok => s.p = D.p

FixedSound ==
  LET f == ImplFixed(E0, ty) IN
  f # -1 => /\ f = FixedLen(E0, ty)
            /\ D.ok => D.p = f                      \* (a fixed-size type may still reject bytes: bool)

\* the element count of a decoded collection / leading tuple member, as digits
CountOf(t, v) ==
  LET rt == Resolve(E0, t) IN
  IF rt.k = "tuple" THEN (LET ft == Resolve(E0, rt.ts[1]) IN
                          IF ft.k = "seq" /\ ZeroElems(E0, ft) THEN ToNat(v[1].rep) ELSE Len(v[1]))
  ELSE IF rt.k = "seq" /\ ZeroElems(E0, rt) THEN ToNat(v.rep) ELSE Len(v)
\* maps and sets collapse duplicates: the peeked count is the ENCODED count, which equals the decoded one for
\* canonical encodings only - so the comparison is made on encodings of values
LenAgrees ==
  HasLen(E0, ty) =>
    LET l == ImplLen(inp) IN
    /\ D.ok => l.ok                                                        \* never fails on a decodable input
    /\ (D.ok /\ Enc(E0, ty, D.v) = SubSeq(inp, 1, D.p)) => ToNat(l.v) = CountOf(ty, D.v)
=============================================================================
