SPECIFICATION Spec
CONSTANT Tier = "quick"
CONSTANT SVariant = "array_bulk"
INVARIANT SkipAgrees
INVARIANT FixedSound
INVARIANT LenAgrees
CHECK_DEADLOCK FALSE
