SPECIFICATION Spec
CONSTANT Tier = "quick"
CONSTANT SVariant = "fixed_mem_size"
INVARIANT SkipAgrees
INVARIANT FixedSound
INVARIANT LenAgrees
CHECK_DEADLOCK FALSE
