SPECIFICATION Spec
CONSTANT Tier = "quick"
CONSTANT SVariant = "len_two_byte"
INVARIANT SkipAgrees
INVARIANT FixedSound
INVARIANT LenAgrees
CHECK_DEADLOCK FALSE
