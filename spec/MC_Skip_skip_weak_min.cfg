SPECIFICATION Spec
CONSTANT Tier = "quick"
CONSTANT SVariant = "skip_weak_min"
INVARIANT SkipAgrees
INVARIANT FixedSound
INVARIANT LenAgrees
CHECK_DEADLOCK FALSE
