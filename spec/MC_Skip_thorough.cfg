SPECIFICATION Spec
CONSTANT Tier = "thorough"
CONSTANT SVariant = "faithful"
INVARIANT SkipAgrees
INVARIANT FixedSound
INVARIANT LenAgrees
CHECK_DEADLOCK FALSE
