---------------------------- MODULE ScaleFormat ----------------------------
(***************************************************************************)
(* REQUIREMENT LAYER of the SCALE codec.                                   *)
(*                                                                         *)
(* Type descriptors (records, field k selects the kind), abstract values   *)
(* and the three central operators                                         *)
(*                                                                         *)
(*   Enc(E, ty, v)        the SCALE encoding of v (concatenating form,     *)
(*                        used on bounded universes by the MC_* modules)   *)
(*   Match(E, ty, v, s, p) streaming twin of Enc: the position after the   *)
(*                        canonical encoding of v found in s at offset p,  *)
(*                        or -1 if s does not continue with Enc(ty, v)     *)
(*   Dec(E, ty, s, p)     the SCALE decoder: [ok, v, p], total on any s    *)
(*                                                                         *)
(* E is the environment of named (recursive) type definitions.             *)
(*                                                                         *)
(* Descriptor kinds (all carry sz = size_of in the running binary):        *)
(*   int      w (bytes), s (signed), b (bulk-capable primitive)            *)
(*            value: w little-endian two's-complement digits               *)
(*            (floats are ints carrying their IEEE bit pattern)            *)
(*   bool     value: BOOLEAN                                               *)
(*   unit     value: <<>>   ((), PhantomData, Compact<()>)                 *)
(*   compact  w            value: w digits                                 *)
(*   nonzero  w, s         value: w digits, not all zero                   *)
(*   optbool  value: <<>> | <<TRUE>> | <<FALSE>>                           *)
(*   option   t            value: <<>> | <<x>>                             *)
(*   result   t, e         value: [ok |-> x] | [err |-> y]                 *)
(*   seq      t, c in {vec,deque,list,heap,bytes}                          *)
(*            value: sequence of element values, or [rep |-> count digits] *)
(*            when the element type has an empty encoding                  *)
(*   str      value: UTF-8 bytes                                           *)
(*   map      key, val, esz  value: sequence of <<k, v>> in key order      *)
(*   set      t, esz       value: sequence in element order                *)
(*   array    t, n         value: sequence of n element values             *)
(*   tuple    ts           value: sequence (structs are tuples of their    *)
(*                         encoded fields; ranges are (start, end))        *)
(*   enum     vs = sequence of [i |-> index byte, ts |-> field types]      *)
(*            value: [i |-> position in vs, fs |-> field values]           *)
(*   ptr      t, p in {box,rc,arc,ref,cow}   value: value of the target    *)
(*   bits     w (store bytes), o in {lsb0,msb0}   value: sequence of 0/1   *)
(*   duration value: <<secs (8 digits), nanos (4 digits)>>                 *)
(*   named    n            reference into E                                *)
(***************************************************************************)
EXTENDS Compact, TLC

Fail == -1

Err == [ok |-> FALSE, v |-> <<>>, p |-> 0]
Ok(v, p) == [ok |-> TRUE, v |-> v, p |-> p]

Billion == <<0, 202, 154, 59>>          \* 10^9 little-endian
MaxBits == 536870911                    \* 2^29 - 1

Resolve(E, ty) == IF ty.k = "named" THEN E[ty.n] ELSE ty


(***************************************************************************)
(* Static attributes of a type.                                            *)
(***************************************************************************)
RECURSIVE IsZeroLen(_, _)
\* every value of the type has the empty encoding
IsZeroLen(E, ty) ==
  CASE ty.k = "unit"  -> TRUE
    [] ty.k = "tuple" -> \A i \in 1..Len(ty.ts) : IsZeroLen(E, ty.ts[i])
    [] ty.k = "array" -> ty.n = 0 \/ IsZeroLen(E, ty.t)
    [] ty.k = "ptr"   -> IsZeroLen(E, ty.t)
    [] OTHER          -> FALSE

RECURSIVE FixedLen(_, _)
\* encoded length if it is the same for every value, else -1
FixedLen(E, ty) ==
  CASE ty.k \in {"int", "nonzero"} -> ty.w
    [] ty.k \in {"bool", "optbool"} -> 1
    [] ty.k = "unit" -> 0
    [] ty.k = "duration" -> 12
    [] ty.k = "tuple" ->
         LET ls == [i \in 1..Len(ty.ts) |-> FixedLen(E, ty.ts[i])] IN
         IF \E i \in 1..Len(ls) : ls[i] = -1 THEN -1
         ELSE FoldLeft(LAMBDA a, x : a + x, 0, ls)
    [] ty.k = "array" -> IF ty.n = 0 THEN 0
                         ELSE LET f == FixedLen(E, ty.t) IN IF f = -1 THEN -1 ELSE f * ty.n
    [] ty.k = "ptr" -> FixedLen(E, ty.t)
    [] ty.k = "enum" ->
         IF Len(ty.vs) = 0 THEN -1 ELSE
         LET ls == [i \in 1..Len(ty.vs) |->
                      FixedLen(E, [k |-> "tuple", ts |-> ty.vs[i].ts])] IN
         IF \A i \in 1..Len(ls) : ls[i] # -1 /\ ls[i] = ls[1] THEN 1 + ls[1] ELSE -1
    [] OTHER -> -1

RECURSIVE MinLen(_, _)
MinLen(E, ty) ==
  CASE ty.k \in {"int", "nonzero"} -> ty.w
    [] ty.k \in {"bool", "optbool", "compact", "option", "seq", "str", "map", "set", "bits"} -> 1
    [] ty.k = "result" -> 1 + MinOf(MinLen(E, ty.t), MinLen(E, ty.e))
    [] ty.k = "unit" -> 0
    [] ty.k = "duration" -> 12
    [] ty.k = "tuple" -> FoldLeft(LAMBDA a, t : a + MinLen(E, t), 0, ty.ts)
    [] ty.k = "array" -> ty.n * MinLen(E, ty.t)
    [] ty.k = "ptr" -> MinLen(E, ty.t)
    [] ty.k = "enum" -> 1
    [] ty.k = "named" -> 1

RECURSIVE MaxLen(_, _)
\* least upper bound of the encoded length, -1 if unbounded
MaxLen(E, ty) ==
  LET Sum(ls) == IF \E i \in 1..Len(ls) : ls[i] = -1 THEN -1
                 ELSE FoldLeft(LAMBDA a, x : a + x, 0, ls)
      MaxL(ls) == IF \E i \in 1..Len(ls) : ls[i] = -1 THEN -1
                  ELSE FoldLeft(LAMBDA a, x : MaxOf(a, x), 0, ls)
  IN
  CASE ty.k \in {"int", "nonzero"} -> ty.w
    [] ty.k \in {"bool", "optbool"} -> 1
    [] ty.k = "compact" -> CompactMaxLen(ty.w)
    [] ty.k = "unit" -> 0
    [] ty.k = "duration" -> 12
    [] ty.k = "option" -> LET m == MaxLen(E, ty.t) IN IF m = -1 THEN -1 ELSE 1 + m
    [] ty.k = "result" -> LET m == MaxL(<<MaxLen(E, ty.t), MaxLen(E, ty.e)>>) IN
                          IF m = -1 THEN -1 ELSE 1 + m
    [] ty.k = "tuple" -> Sum([i \in 1..Len(ty.ts) |-> MaxLen(E, ty.ts[i])])
    [] ty.k = "array" -> IF ty.n = 0 THEN 0
                         ELSE LET m == MaxLen(E, ty.t) IN IF m = -1 THEN -1 ELSE m * ty.n
    [] ty.k = "ptr" -> MaxLen(E, ty.t)
    [] ty.k = "enum" ->
         LET m == MaxL([i \in 1..Len(ty.vs) |->
                          MaxLen(E, [k |-> "tuple", ts |-> ty.vs[i].ts])]) IN
         IF Len(ty.vs) = 0 THEN 0 ELSE IF m = -1 THEN -1 ELSE 1 + m
    [] OTHER -> -1

\* the element type of a sequence takes no input: the value of the sequence is carried as
\* [rep |-> count digits] instead of a list of (identical) element values
ZeroElems(E, ty) == IsZeroLen(E, Resolve(E, ty.t))

(***************************************************************************)
(* Orders used by ordered containers (Rust's Ord on the element type).     *)
(***************************************************************************)
RECURSIVE Less(_, _, _, _)
Less(E, ty0, a, b) ==
  LET ty == Resolve(E, ty0) IN
  CASE ty.k \in {"int", "nonzero"} -> IF ty.s THEN SignedLess(a, b, ty.w) ELSE DigLess(a, b)
    [] ty.k = "compact" -> DigLess(a, b)
    [] ty.k = "bool" -> (~a) /\ b
    [] ty.k = "unit" -> FALSE
    [] ty.k = "str" -> LexLess(LAMBDA x, y : x < y, a, b)
    [] ty.k = "seq" -> IF ZeroElems(E, ty) THEN DigLess(a.rep, b.rep)
                       ELSE LexLess(LAMBDA x, y : Less(E, ty.t, x, y), a, b)
    [] ty.k = "set" -> LexLess(LAMBDA x, y : Less(E, ty.t, x, y), a, b)
    [] ty.k = "array" -> LexLess(LAMBDA x, y : Less(E, ty.t, x, y), a, b)
    [] ty.k = "option" -> IF Len(a) = 0 THEN Len(b) = 1
                          ELSE Len(b) = 1 /\ Less(E, ty.t, a[1], b[1])
    [] ty.k = "tuple" ->
         \E i \in 1..Len(ty.ts) :
            /\ Less(E, ty.ts[i], a[i], b[i])
            /\ \A j \in 1..(i-1) : a[j] = b[j]
    [] ty.k = "ptr" -> Less(E, ty.t, a, b)

\* sort a sequence of distinct-or-not values by Less (insertion into a sorted prefix)
SortBy(Lt(_, _), s) == SortSeq(s, Lt)

StrictlyIncreasing(Lt(_, _), ks) == \A i \in 1..(Len(ks) - 1) : Lt(ks[i], ks[i+1])

\* what an ordered map/set built by inserting the entries one after the other holds:
\* for equal keys the last entry wins, iteration is in key order
NormMap(E, kty, es) ==
  LET n == Len(es)
      Lt(x, y) == Less(E, kty, x[1], y[1])
  IN IF StrictlyIncreasing(Lt, es) THEN es
     ELSE LET keep == {i \in 1..n : \A j \in (i+1)..n : es[j][1] # es[i][1]}
              kept == SetToSortSeq(keep, <)
          IN SortBy(Lt, [i \in 1..Len(kept) |-> es[kept[i]]])
\* BTreeSet::from_iter keeps the first of equal elements; equal elements have equal
\* abstract values for every element type in use, so "which one" is not observable
NormSet(E, ty, xs) ==
  LET n == Len(xs)
      Lt(x, y) == Less(E, ty, x, y)
  IN IF StrictlyIncreasing(Lt, xs) THEN xs
     ELSE LET keep == {i \in 1..n : \A j \in (i+1)..n : xs[j] # xs[i]}
              kept == SetToSortSeq(keep, <)
          IN SortBy(Lt, [i \in 1..Len(kept) |-> xs[kept[i]]])
NormHeap(E, ty, xs) == SortBy(LAMBDA x, y : Less(E, ty, x, y), xs)

(***************************************************************************)
(* Bit sequences: expected storage bytes for logical bits v.               *)
(***************************************************************************)
BitWords(nbits, W) == (nbits + 8 * W - 1) \div (8 * W)
\* logical bit index (0-based) stored at bit k of byte q (0-based) of the payload, or -1
BitIndex(q, k, W, o) ==
  LET j == q \div W   bq == q % W   P == 8 * bq + k
      r == IF o = "lsb0" THEN P ELSE 8 * W - 1 - P
  IN j * 8 * W + r
BitsByte(v, q, W, o) ==
  LET B(k) == LET i == BitIndex(q, k, W, o) IN IF i < Len(v) THEN v[i+1] ELSE 0
  IN B(0) + 2*B(1) + 4*B(2) + 8*B(3) + 16*B(4) + 32*B(5) + 64*B(6) + 128*B(7)
\* bit i (0-based) read back from payload bytes starting after position p of s
BitAt(s, p, i, W, o) ==
  LET j == i \div (8 * W)   r == i % (8 * W)
      P == IF o = "lsb0" THEN r ELSE 8 * W - 1 - r
  IN BitOf(s[p + j * W + (P \div 8) + 1], P % 8)

(***************************************************************************)
(* Enc: the encoding (concatenating definition).                           *)
(***************************************************************************)
RECURSIVE Enc(_, _, _)
Enc(E, ty, v) ==
  LET Cat(ss) == FoldLeft(LAMBDA a, x : a \o x, <<>>, ss) IN
  CASE ty.k \in {"int", "nonzero"} -> v
    [] ty.k = "bool" -> IF v THEN <<1>> ELSE <<0>>
    [] ty.k = "unit" -> <<>>
    [] ty.k = "compact" -> CompactEnc(v)
    [] ty.k = "optbool" -> IF Len(v) = 0 THEN <<0>> ELSE IF v[1] THEN <<1>> ELSE <<2>>
    [] ty.k = "option" -> IF Len(v) = 0 THEN <<0>> ELSE <<1>> \o Enc(E, ty.t, v[1])
    [] ty.k = "result" -> IF "ok" \in DOMAIN v THEN <<0>> \o Enc(E, ty.t, v.ok)
                          ELSE <<1>> \o Enc(E, ty.e, v.err)
    [] ty.k = "seq" -> IF ZeroElems(E, ty) THEN CompactEnc(v.rep)
                       ELSE CompactEnc(FromNat(Len(v), 4))
                            \o Cat([i \in 1..Len(v) |-> Enc(E, ty.t, v[i])])
    [] ty.k = "set" -> CompactEnc(FromNat(Len(v), 4))
                       \o Cat([i \in 1..Len(v) |-> Enc(E, ty.t, v[i])])
    [] ty.k = "str" -> CompactEnc(FromNat(Len(v), 4)) \o v
    [] ty.k = "map" -> CompactEnc(FromNat(Len(v), 4))
                       \o Cat([i \in 1..Len(v) |->
                                  Enc(E, ty.key, v[i][1]) \o Enc(E, ty.val, v[i][2])])
    [] ty.k = "array" -> Cat([i \in 1..ty.n |-> Enc(E, ty.t, v[i])])
    [] ty.k = "tuple" -> Cat([i \in 1..Len(ty.ts) |-> Enc(E, ty.ts[i], v[i])])
    [] ty.k = "enum" -> <<ty.vs[v.i].i>>
                        \o Cat([j \in 1..Len(ty.vs[v.i].ts) |-> Enc(E, ty.vs[v.i].ts[j], v.fs[j])])
    [] ty.k = "ptr" -> Enc(E, ty.t, v)
    [] ty.k = "bits" ->
         CompactEnc(FromNat(Len(v), 4))
         \o [q \in 1..(BitWords(Len(v), ty.w) * ty.w) |-> BitsByte(v, q - 1, ty.w, ty.o)]
    [] ty.k = "duration" -> v[1] \o v[2]
    [] ty.k = "named" -> Enc(E, E[ty.n], v)

(***************************************************************************)
(* Match: position after the canonical encoding of v in s at p, or Fail.   *)
(* Linear in the size of v (no concatenation).                             *)
(***************************************************************************)
MatchLit(lit, s, p) == IF p # Fail /\ IsPrefixAt(lit, s, p) THEN p + Len(lit) ELSE Fail

RECURSIVE Match(_, _, _, _, _)
RECURSIVE MatchAll(_, _, _, _, _)
\* tys and vs of equal length: match the values one after the other
MatchAll(E, tys, vs, s, p) ==
  FoldLeft(LAMBDA q, i : IF q = Fail THEN Fail ELSE Match(E, tys[i], vs[i], s, q),
           p, [i \in 1..Len(tys) |-> i])

MatchElems(E, t, vs, s, p) ==
  LET rt == Resolve(E, t) IN
  IF rt.k \in {"int", "nonzero"} /\ p # Fail
  THEN \* fixed-width elements: compare in place
       LET w == rt.w  n == Len(vs) IN
       IF p + n * w <= Len(s) /\ \A j \in 1..n : SubSeq(s, p + (j-1)*w + 1, p + j*w) = vs[j]
       THEN p + n * w ELSE Fail
  ELSE FoldLeft(LAMBDA q, x : IF q = Fail THEN Fail ELSE Match(E, t, x, s, q), p, vs)

Match(E, ty, v, s, p) ==
  IF p = Fail THEN Fail ELSE
  CASE ty.k \in {"int", "nonzero"} -> MatchLit(v, s, p)
    [] ty.k = "bool" -> MatchLit(IF v THEN <<1>> ELSE <<0>>, s, p)
    [] ty.k = "unit" -> p
    [] ty.k = "compact" -> MatchLit(CompactEnc(v), s, p)
    [] ty.k = "optbool" -> MatchLit(IF Len(v) = 0 THEN <<0>> ELSE IF v[1] THEN <<1>> ELSE <<2>>, s, p)
    [] ty.k = "option" -> IF Len(v) = 0 THEN MatchLit(<<0>>, s, p)
                          ELSE Match(E, ty.t, v[1], s, MatchLit(<<1>>, s, p))
    [] ty.k = "result" -> IF "ok" \in DOMAIN v THEN Match(E, ty.t, v.ok, s, MatchLit(<<0>>, s, p))
                          ELSE Match(E, ty.e, v.err, s, MatchLit(<<1>>, s, p))
    [] ty.k = "seq" ->
         IF ZeroElems(E, ty) THEN MatchLit(CompactEnc(v.rep), s, p)
         ELSE MatchElems(E, ty.t, v, s, MatchLit(CompactEnc(FromNat(Len(v), 4)), s, p))
    [] ty.k = "set" -> MatchElems(E, ty.t, v, s, MatchLit(CompactEnc(FromNat(Len(v), 4)), s, p))
    [] ty.k = "str" -> MatchLit(v, s, MatchLit(CompactEnc(FromNat(Len(v), 4)), s, p))
    [] ty.k = "map" ->
         FoldLeft(LAMBDA q, e : Match(E, ty.val, e[2], s, Match(E, ty.key, e[1], s, q)),
                  MatchLit(CompactEnc(FromNat(Len(v), 4)), s, p), v)
    [] ty.k = "array" -> MatchElems(E, ty.t, v, s, p)
    [] ty.k = "tuple" -> MatchAll(E, ty.ts, v, s, p)
    [] ty.k = "enum" -> MatchAll(E, ty.vs[v.i].ts, v.fs, s, MatchLit(<<ty.vs[v.i].i>>, s, p))
    [] ty.k = "ptr" -> Match(E, ty.t, v, s, p)
    [] ty.k = "bits" ->
         LET q == MatchLit(CompactEnc(FromNat(Len(v), 4)), s, p)
             nb == BitWords(Len(v), ty.w) * ty.w
         IN IF q = Fail \/ q + nb > Len(s) THEN Fail
            ELSE IF \A j \in 1..nb : s[q + j] = BitsByte(v, j - 1, ty.w, ty.o) THEN q + nb ELSE Fail
    [] ty.k = "duration" -> MatchLit(v[2], s, MatchLit(v[1], s, p))
    [] ty.k = "named" -> Match(E, E[ty.n], v, s, p)

\* s is exactly the encoding of v.  Heaps encode in their internal order: any
\* permutation of the elements is an encoding of the same multiset.
RECURSIVE HasHeap(_, _)
HasHeap(E, ty) ==
  CASE ty.k = "seq" -> ty.c = "heap" \/ HasHeap(E, ty.t)
    [] ty.k \in {"option", "set", "array", "ptr"} -> HasHeap(E, ty.t)
    [] ty.k = "result" -> HasHeap(E, ty.t) \/ HasHeap(E, ty.e)
    [] ty.k = "map" -> HasHeap(E, ty.key) \/ HasHeap(E, ty.val)
    [] ty.k = "tuple" -> \E i \in 1..Len(ty.ts) : HasHeap(E, ty.ts[i])
    [] ty.k = "enum" -> \E i \in 1..Len(ty.vs) : \E j \in 1..Len(ty.vs[i].ts) : HasHeap(E, ty.vs[i].ts[j])
    [] OTHER -> FALSE

(***************************************************************************)
(* Dec: the decoder.  Total; liberal exactly where SCALE decoders are      *)
(* (unsorted or duplicate map/set entries, garbage in bit padding).        *)
(***************************************************************************)
RECURSIVE Dec(_, _, _, _)

\* decode tys one after the other from p: [ok, v (sequence), p]
DecAll(E, tys, s, p) ==
  FoldLeft(LAMBDA a, t : IF ~a.ok THEN a
                         ELSE LET r == Dec(E, t, s, a.p) IN
                              IF r.ok THEN [ok |-> TRUE, v |-> Append(a.v, r.v), p |-> r.p] ELSE Err,
           Ok(<<>>, p), tys)

\* n elements of type t from p
DecElems(E, t, n, s, p) ==
  LET rt == Resolve(E, t)
      f == FixedLen(E, rt)
  IN
  IF rt.k = "int"
  THEN \* fixed width, every bit pattern valid: slice in place
       IF p + n * rt.w <= Len(s)
       THEN Ok([j \in 1..n |-> SubSeq(s, p + (j-1)*rt.w + 1, p + j*rt.w)], p + n * rt.w)
       ELSE Err
  ELSE IF f > 0
  THEN IF p + n * f > Len(s) THEN Err
       ELSE LET rs == [j \in 1..n |-> Dec(E, t, s, p + (j-1)*f)] IN
            IF \A j \in 1..n : rs[j].ok THEN Ok([j \in 1..n |-> rs[j].v], p + n * f) ELSE Err
  ELSE FoldLeft(LAMBDA a, j : IF ~a.ok THEN a
                              ELSE LET r == Dec(E, t, s, a.p) IN
                                   IF r.ok THEN [ok |-> TRUE, v |-> Append(a.v, r.v), p |-> r.p]
                                   ELSE Err,
                Ok(<<>>, p), [j \in 1..n |-> j])

\* count prefix of a collection: [ok, n (Huge if >= 2^31), dig, p]
DecCount(s, p) ==
  LET c == CompactDec(4, s, p) IN
  IF c.ok THEN [ok |-> TRUE, n |-> ToNat(c.v), dig |-> c.v, p |-> c.p]
  ELSE [ok |-> FALSE, n |-> 0, dig |-> <<>>, p |-> 0]

\* a collection of n elements, each at least m > 0 bytes, cannot fit what is left
TooMany(n, m, s, p) == n = Huge \/ n > (Len(s) - p) \div m

Dec(E, ty, s, p) ==
  CASE ty.k = "int" -> IF p + ty.w <= Len(s) THEN Ok(SubSeq(s, p + 1, p + ty.w), p + ty.w) ELSE Err
    [] ty.k = "nonzero" ->
         IF p + ty.w <= Len(s) /\ ~IsZeroDig(SubSeq(s, p + 1, p + ty.w))
         THEN Ok(SubSeq(s, p + 1, p + ty.w), p + ty.w) ELSE Err
    [] ty.k = "bool" -> IF p < Len(s) /\ s[p+1] \in {0, 1} THEN Ok(s[p+1] = 1, p + 1) ELSE Err
    [] ty.k = "unit" -> Ok(<<>>, p)
    [] ty.k = "compact" -> LET c == CompactDec(ty.w, s, p) IN IF c.ok THEN Ok(c.v, c.p) ELSE Err
    [] ty.k = "optbool" ->
         IF p >= Len(s) THEN Err
         ELSE CASE s[p+1] = 0 -> Ok(<<>>, p + 1)
                [] s[p+1] = 1 -> Ok(<<TRUE>>, p + 1)
                [] s[p+1] = 2 -> Ok(<<FALSE>>, p + 1)
                [] OTHER -> Err
    [] ty.k = "option" ->
         IF p >= Len(s) THEN Err
         ELSE IF s[p+1] = 0 THEN Ok(<<>>, p + 1)
         ELSE IF s[p+1] = 1 THEN LET r == Dec(E, ty.t, s, p + 1) IN
                                 IF r.ok THEN Ok(<<r.v>>, r.p) ELSE Err
         ELSE Err
    [] ty.k = "result" ->
         IF p >= Len(s) THEN Err
         ELSE IF s[p+1] = 0 THEN LET r == Dec(E, ty.t, s, p + 1) IN
                                 IF r.ok THEN Ok([ok |-> r.v], r.p) ELSE Err
         ELSE IF s[p+1] = 1 THEN LET r == Dec(E, ty.e, s, p + 1) IN
                                 IF r.ok THEN Ok([err |-> r.v], r.p) ELSE Err
         ELSE Err
    [] ty.k = "seq" ->
         LET c == DecCount(s, p) IN
         IF ~c.ok THEN Err
         ELSE IF ZeroElems(E, ty) THEN Ok([rep |-> c.dig], c.p)
         ELSE IF TooMany(c.n, MinLen(E, Resolve(E, ty.t)), s, c.p) THEN Err
         ELSE LET r == DecElems(E, ty.t, c.n, s, c.p) IN
              IF ~r.ok THEN Err
              ELSE IF ty.c = "heap" THEN Ok(NormHeap(E, ty.t, r.v), r.p) ELSE r
    [] ty.k = "set" ->
         LET c == DecCount(s, p) IN
         IF ~c.ok THEN Err
         ELSE IF TooMany(c.n, MaxOf(1, MinLen(E, Resolve(E, ty.t))), s, c.p)
                 /\ ~ZeroElems(E, ty) THEN Err
         ELSE IF ZeroElems(E, ty) THEN Ok(IF IsZeroDig(c.dig) THEN <<>> ELSE <<<<>>>>, c.p)
         ELSE LET r == DecElems(E, ty.t, c.n, s, c.p) IN
              IF r.ok THEN Ok(NormSet(E, ty.t, r.v), r.p) ELSE Err
    [] ty.k = "str" ->
         LET c == DecCount(s, p) IN
         IF ~c.ok \/ TooMany(c.n, 1, s, c.p) THEN Err
         ELSE LET b == SubSeq(s, c.p + 1, c.p + c.n) IN
              IF Utf8Valid(b) THEN Ok(b, c.p + c.n) ELSE Err
    [] ty.k = "map" ->
         LET c == DecCount(s, p)
             et == [k |-> "tuple", ts |-> <<ty.key, ty.val>>]
         IN
         IF ~c.ok THEN Err
         ELSE IF TooMany(c.n, MaxOf(1, MinLen(E, et)), s, c.p) /\ MinLen(E, et) > 0 THEN Err
         ELSE IF MinLen(E, et) = 0
              THEN Ok(IF IsZeroDig(c.dig) THEN <<>> ELSE << << <<>>, <<>> >> >>, c.p)
         ELSE LET r == DecElems(E, et, c.n, s, c.p) IN
              IF r.ok THEN Ok(NormMap(E, ty.key, r.v), r.p) ELSE Err
    [] ty.k = "array" -> DecElems(E, ty.t, ty.n, s, p)
    [] ty.k = "tuple" -> DecAll(E, ty.ts, s, p)
    [] ty.k = "enum" ->
         IF p >= Len(s) \/ ~\E i \in 1..Len(ty.vs) : ty.vs[i].i = s[p+1] THEN Err
         ELSE LET i == CHOOSE i \in 1..Len(ty.vs) : ty.vs[i].i = s[p+1]
                  r == DecAll(E, ty.vs[i].ts, s, p + 1)
              IN IF r.ok THEN Ok([i |-> i, fs |-> r.v], r.p) ELSE Err
    [] ty.k = "ptr" -> Dec(E, ty.t, s, p)
    [] ty.k = "bits" ->
         LET c == DecCount(s, p) IN
         IF ~c.ok \/ c.n > MaxBits THEN Err
         ELSE LET nb == BitWords(c.n, ty.w) * ty.w IN
              IF c.p + nb > Len(s) THEN Err
              ELSE Ok([i \in 1..c.n |-> BitAt(s, c.p, i - 1, ty.w, ty.o)], c.p + nb)
    [] ty.k = "duration" ->
         IF p + 12 <= Len(s) /\ DigLess(SubSeq(s, p + 9, p + 12), Billion)
         THEN Ok(<<SubSeq(s, p + 1, p + 8), SubSeq(s, p + 9, p + 12)>>, p + 12) ELSE Err
    [] ty.k = "named" -> Dec(E, E[ty.n], s, p)

\* consume-everything decoding
DecExact(E, ty, s) == LET r == Dec(E, ty, s, 0) IN IF r.ok /\ r.p = Len(s) THEN r ELSE Err

\* s is an encoding of v.  For types containing heaps (which encode in their
\* internal order) any byte string decoding to the same multiset and
\* re-matching qualifies; otherwise the canonical form is required.
IsEncodingOf(E, ty, v, s) ==
  IF HasHeap(E, ty)
  THEN LET r == Dec(E, ty, s, 0) IN r.ok /\ r.p = Len(s) /\ r.v = v
  ELSE Match(E, ty, v, s, 0) = Len(s)
=============================================================================
