-------------------------------- MODULE Skip --------------------------------
(***************************************************************************)
(* IMPLEMENTATION-SHAPED LAYER: the crate's three "look without building"  *)
(* operations, as the code computes them (codec.rs):                       *)
(*                                                                         *)
(*   ImplFixed   Decode::encoded_fixed_size - a TABLE, not a theorem: the  *)
(*               multi-byte integers and floats (impl_endians!), bool, and *)
(*               arrays whose element is in the table (element size times  *)
(*               N).  u8/i8, tuples, options, derived types report none    *)
(*               although their encodings have one length.                 *)
(*   ImplSkip    Decode::skip - the default decodes and drops; arrays with *)
(*               a fixed size skip their elements one by one ("Should skip *)
(*               the bytes, but Input does not support skip"), so element  *)
(*               validity (bool bytes) is still checked.                   *)
(*   ImplLen     DecodeLength::len - Compact<u32> read from the front of   *)
(*               the bytes, for the six collections and for tuples whose   *)
(*               first member is one.                                      *)
(*                                                                         *)
(* MC_Skip checks them against the requirement layer (Dec, FixedLen) on    *)
(* every short input.  SVariant names the deviations seeded changes made:  *)
(*   "array_bulk"      a fixed-size array skips N * size bytes unvalidated *)
(*   "fixed_mem_size"  arrays report element MEMORY size times N           *)
(*   "len_two_byte"    the two-byte class is taken to end at 2^14, so the  *)
(*                     count 16384 in four-byte form is "non-canonical"    *)
(*   "skip_weak_min"   a specialised compact skip accepts a four-byte      *)
(*                     big-integer payload whose top byte is below 0x40    *)
(***************************************************************************)
EXTENDS Limits

CONSTANT SVariant

RECURSIVE ImplFixed(_, _)
ImplFixed(E, ty) ==
  CASE "fx" \in DOMAIN ty -> ty.fx                             \* a hand-written codec that declares its size
    [] ty.k = "named" -> -1                                   \* derived / user types: trait default
    [] ty.k = "int" -> IF ty.w >= 2 /\ ty.b THEN ty.w ELSE -1      \* impl_endians! only (twins are user types)
    [] ty.k = "bool" -> 1
    [] ty.k = "array" /\ "ga" \in DOMAIN ty -> -1              \* the generic-array adapter keeps the trait default
    [] ty.k = "array" ->
         LET f == ImplFixed(E, ty.t) IN
         IF f = -1 THEN -1
         ELSE IF SVariant = "fixed_mem_size" THEN ElemSize(E, ty.t) * ty.n ELSE f * ty.n
    [] OTHER -> -1

\* skip: [ok, p]
RECURSIVE ImplSkip(_, _, _, _)
ImplSkip(E, ty, inp, p) ==
  LET dflt == LET d == Dec(E, ty, inp, p) IN [ok |-> d.ok, p |-> IF d.ok THEN d.p ELSE p] IN
  CASE ty.k = "array" /\ ImplFixed(E, ty) # -1 ->              \* (the generic-array adapter takes the default: OTHER)
         IF SVariant = "array_bulk"
         THEN LET n == ImplFixed(E, ty) IN IF p + n <= Len(inp) THEN [ok |-> TRUE, p |-> p + n] ELSE [ok |-> FALSE, p |-> p]
         ELSE LET step(a, i) == IF ~a.ok THEN a ELSE ImplSkip(E, ty.t, inp, a.p) IN
              FoldLeft(step, [ok |-> TRUE, p |-> p], [i \in 1..ty.n |-> i])
    [] ty.k = "compact" /\ SVariant = "skip_weak_min" /\ ty.w >= 4 /\ p + 5 <= Len(inp) /\ inp[p + 1] = 3 ->
         IF inp[p + 5] # 0 THEN [ok |-> TRUE, p |-> p + 5] ELSE [ok |-> FALSE, p |-> p]
    [] OTHER -> dflt

\* the count peeked from the front of an encoding: [ok, n (digits)]
HasLen(E, ty) ==
  LET rt == Resolve(E, ty) IN
  \/ rt.k \in {"seq", "map", "set"} /\ (rt.k # "seq" \/ rt.c \in {"vec", "deque", "heap", "list"})
  \/ rt.k = "tuple" /\ Len(rt.ts) >= 1 /\ LET ft == Resolve(E, rt.ts[1]) IN ft.k \in {"seq", "map", "set"}
ImplLen(inp) ==
  LET c == CompactDec(4, inp, 0) IN
  IF SVariant = "len_two_byte" /\ c.ok /\ ToNat(c.v) = 16384 THEN [ok |-> FALSE, v |-> <<>>]
  ELSE [ok |-> c.ok, v |-> IF c.ok THEN c.v ELSE <<>>]
=============================================================================
