----------------------------- MODULE Trace_Codec -----------------------------
(***************************************************************************)
(* TRACE VALIDATION: records logged by the harness from the real           *)
(* parity-scale-codec are accepted one by one iff the specification        *)
(* explains them.  One TLC state per record; the verdict on each record is *)
(* computed here, from ScaleFormat / Limits, never by the harness.          *)
(*                                                                         *)
(*   TRACE  (env)  ndjson file written by `vharness gen`                   *)
(*   PROP   (env)  property whose conjuncts are active (C01, C02, ...)     *)
(*                                                                         *)
(* Record kinds:                                                           *)
(*   enc   value encoded by the implementation (C01, C06, C07, C16, C13)   *)
(*   rt    encode, append a tail, decode (C02)                             *)
(*   dec   one byte string decoded through several input configurations    *)
(*         with the Input-level events seen by a recording bottom input    *)
(*         (C03, C08, C11, C12, C14, C18, C19)                             *)
(***************************************************************************)
EXTENDS Derive, Containers, Append, Json, IOUtils

ExpectedNew(total, fpos) == IF fpos < 0 THEN total ELSE fpos

Rec == ndJsonDeserialize(IOEnv.TRACE)
Prop == IOEnv.PROP

(***************************************************************************)
(* DRIFT (reported, never gating): the implementation-shaped decoder       *)
(* machine, with the real constants, is run on the same input and its      *)
(* predictions - outcome, value, bytes consumed, deepest nesting, total    *)
(* announced - are compared EXACTLY with what the real decoder did.  A     *)
(* difference that is still inside the requirement is not a violation of   *)
(* any property; it says the model no longer follows the code.             *)
(***************************************************************************)
DM == INSTANCE Decoder WITH ChunkBytes <- 16384, CMax <- Huge, Variant <- "faithful"
RECURSIVE RunM(_, _, _)
RunM(cfg, mm, fuel) == IF mm.status # "run" \/ fuel = 0 THEN mm ELSE RunM(cfg, DM!Step(cfg, mm), fuel - 1)
MachineOn(r) ==
  LET cfg == [E |-> r.E, ty |-> r.ty, inp |-> r.inp, known |-> TRUE, dlim |-> -1, mlim |-> -1, counted |-> TRUE]
  IN RunM(cfg, DM!InitM(cfg), 600)
DriftKind(r, obs) ==
  LET mm == MachineOn(r) IN
  IF mm.status = "run" THEN "none"                       \* out of fuel: not compared
  ELSE IF (mm.status = "ok") # (r.base.res = "ok") THEN "outcome"
  ELSE IF mm.status # "ok" THEN "none"
  ELSE IF mm.pos # r.base.n \/ mm.vs # <<r.base.v>> THEN "value"
  ELSE IF mm.dmax # obs.dmax THEN "depth"
  ELSE IF mm.used # ToNat(obs.U) THEN "announced"
  ELSE IF mm.count # r.base.n THEN "count"
  ELSE "none"
DriftNote(r, obs) ==
  (Prop = "C03" /\ Len(r.inp) <= 12) =>
     LET d == DriftKind(r, obs) IN IF d = "none" THEN TRUE ELSE PrintT(<<"DRIFT", d, r.tn>>)

\* the same for Skip.tla: the code's fixed-size TABLE is compared exactly with the model's (a type that starts or stops
\* declaring a size keeps C13/C18 as long as the size is right, so this is drift, not a violation)
SK == INSTANCE Skip WITH SVariant <- "faithful"
FixDrift(r) ==
  LET f == SK!ImplFixed(r.E, Resolve(r.E, r.ty)) IN
  IF f = r.fixed THEN TRUE ELSE PrintT(<<"DRIFT", "fixedtable", r.tn>>)

VARIABLE l

(***************************************************************************)
(* enc                                                                     *)
(***************************************************************************)
EncOK(r) ==
  /\ r.res = "ok"                                   \* encoding never panics
  /\ IsEncodingOf(r.E, r.ty, r.v, r.out)
  /\ ("alts" \in DOMAIN r =>                        \* C07 / C16: other entry points, alias forms
        \A i \in 1..Len(r.alts) :
           /\ r.alts[i].res = "ok"
           /\ IF r.alts[i].kind = "size"
              THEN r.alts[i].n = Len(r.out)
              ELSE IsEncodingOf(r.E, r.ty, r.v, r.alts[i].out))

(***************************************************************************)
(* rt                                                                      *)
(***************************************************************************)
RtOK(r) ==
  LET s == r.out \o r.tail
      d == Dec(r.E, r.ty, s, 0)
  IN
  /\ r.res = "ok"
  /\ IsEncodingOf(r.E, r.ty, r.v, r.out)
  /\ d.ok /\ d.v = r.v /\ d.p = Len(r.out)          \* the specification's own round trip
  /\ r.dv = r.v                                     \* the implementation's
  /\ r.n = Len(r.out)
  /\ r.rest = r.tail
  /\ "eq" \in DOMAIN r => r.eq                            \* equal under the type's own ==
  /\ "bres" \in DOMAIN r => r.bres = "ok" /\ r.bdv = r.v     \* same through the shared-buffer back-end

(***************************************************************************)
(* dec                                                                     *)
(***************************************************************************)
EvInit == [pos |-> 0, d |-> 0, dmax |-> 0, under |-> FALSE, U |-> <<>>, nal |-> 0]
EvStep(a, e) ==
  CASE e[1] = 0 -> [a EXCEPT !.pos = @ + ToNat(e[2])]
    [] e[1] = 1 -> a
    [] e[1] = 2 -> [a EXCEPT !.d = @ + 1, !.dmax = MaxOf(@, a.d + 1)]
    [] e[1] = 3 -> [a EXCEPT !.d = @ - 1, !.under = @ \/ a.d = 0]
    [] e[1] = 4 -> [a EXCEPT !.U = Strip(DigAdd(@, e[2])), !.nal = @ + 1]
EvFold(ev) == FoldLeft(EvStep, EvInit, ev)

\* a run's outcome equals the specification's
Agrees(run, spec) ==
  /\ run.res \in {"ok", "err"}
  /\ (run.res = "ok") = spec.ok
  /\ spec.ok => /\ run.v = spec.v
                /\ run.n = -1 \/ run.n = spec.p

IsErr(run) == run.res = "err"

LayerKind(w) == w[1]
LayerLimit(w) == w[2]
Single(run, kind) == Len(run.st) = 1 /\ LayerKind(run.st[1]) = kind

DecOK(r) ==
  LET spec == Dec(r.E, r.ty, r.inp, 0)
      m == EvFold(r.base.ev)
      dObs == m.dmax
      U == m.U
      \* a record may name the property whose conjuncts apply to it (the C20 corpus mixes kinds)
      P == IF "prop" \in DOMAIN r THEN r.prop ELSE Prop
  IN
  \* ---- every property: the unlimited base run is the specification's decoder (C03)
  /\ Agrees(r.base, spec)
  /\ DriftNote(r, m)
  /\ ~r.base.evo
  /\ m.pos = r.base.n
  /\ \A i \in 1..Len(r.runs) : r.runs[i].res # "panic"
  \* ---- C03 / C08: every configuration with non-binding limits agrees
  /\ P \in {"C03", "C05", "C08", "C14", "C20"} => \A i \in 1..Len(r.runs) : Agrees(r.runs[i], spec)
  \* ---- C14: strict prefixes of encodings are rejected; consume-all entry points are exact
  /\ r.pfx => ~spec.ok
  /\ P = "C14" =>
       LET exact == spec.ok /\ spec.p = Len(r.inp) IN
       /\ r.all.res \in {"ok", "err"} /\ (r.all.res = "ok") = exact /\ (exact => r.all.v = spec.v)
       /\ r.alld.res \in {"ok", "err"} /\ (r.alld.res = "ok") = exact /\ (exact => r.alld.v = spec.v)
  /\ P = "C11" =>        \* the consume-everything variant additionally rejects trailing bytes
       LET exact == spec.ok /\ spec.p = Len(r.inp) IN
       r.alld.res \in {"ok", "err"} /\ (r.alld.res = "ok") = exact /\ (exact => r.alld.v = spec.v)
  \* ---- C18: skipping agrees with decoding
  /\ P = "C18" => /\ r.skip.res \in {"ok", "err"}
                     /\ (r.skip.res = "ok") = spec.ok
                     /\ spec.ok => r.skip.n = spec.p
  \* ---- C19: every counting layer reports the bytes the bottom input delivered
  /\ P = "C19" =>
       \A i \in 1..Len(r.runs) :
          LET run == r.runs[i] IN
          /\ Agrees(run, spec)
          /\ Len(run.cnt) = Cardinality({j \in 1..Len(run.st) : LayerKind(run.st[j]) = "c"})
          /\ \A j \in 1..Len(run.cnt) : ToNat(run.cnt[j]) = run.n
          /\ spec.ok => \A j \in 1..Len(run.cnt) : ToNat(run.cnt[j]) = spec.p
  \* ---- C11: depth limit
  /\ P = "C11" =>
       /\ spec.ok => /\ DepthEnvelope(r.E, r.ty, spec.v, dObs)
                     /\ m.d = 0 /\ ~m.under                 \* descents and ascents balance
       /\ \A i \in 1..Len(r.runs) :
            LET run == r.runs[i] IN
            IF Single(run, "d")
            THEN LET L == LayerLimit(run.st[1]) IN
                 IF spec.ok /\ ToNat(L) >= dObs THEN Agrees(run, spec) ELSE IsErr(run)
            ELSE \* stack [counted, depth(dObs)]: exactly enough
                 Agrees(run, spec)
  \* ---- C12: memory limit
  /\ P = "C12" =>
       /\ (spec.ok /\ r.mt) => MemEnvelope(r.E, r.ty, spec.v, U)
       /\ \A i \in 1..Len(r.runs) :
            LET run == r.runs[i]
                L == LayerLimit(run.st[1])
            IN
            /\ ~spec.ok => IsErr(run)
            /\ spec.ok =>
                 /\ DigLess(U, L) => /\ Agrees(run, spec)
                                     /\ DigEq(run.used[1], U)   \* tracked usage is the threshold
                 /\ (~IsZeroDig(U) /\ ~DigLess(U, L)) => IsErr(run)
                 /\ run.res \in {"ok", "err"}
                 /\ run.res = "ok" => Agrees(run, spec)        \* transparent whenever it succeeds

(***************************************************************************)
(* cenc / cdec: compact integers (C04)                                     *)
(***************************************************************************)
CEncOK(r) ==
  /\ r.res = "ok"
  /\ Len(r.v) = r.w
  /\ r.out = CompactEnc(r.v)                 \* the unique shortest form
  /\ r.clen = CompactLen(r.v)                \* advertised length
  /\ r.clen = Len(r.out)
  /\ r.uenc = r.out /\ r.to = r.out          \* borrowed-slice and streaming forms
  /\ r.size = Len(r.out) /\ r.hint = Len(r.out)

CDecOK(r) ==
  LET d == CompactDec(r.w, r.inp, 0) IN
  /\ r.res \in {"ok", "err"}
  /\ (r.res = "ok") = d.ok
  /\ d.ok => r.v = d.v /\ r.n = d.p

(***************************************************************************)
(* mel / fix: declared maximum, constant and fixed encoded lengths (C13)   *)
(***************************************************************************)
MelOK(r) ==
  LET rt == Resolve(r.E, r.ty)
      mx == MaxLen(r.E, rt)
  IN
  /\ r.res = "ok"
  /\ mx # -1                                  \* the specification agrees the type is bounded
  /\ ToNat(r.decl) >= mx                      \* no value encodes to more than declared
  /\ r.cel => /\ FixedLen(r.E, rt) # -1       \* constant length: every value has exactly it
              /\ ToNat(r.decl) = FixedLen(r.E, rt)
  /\ "out" \in DOMAIN r =>
        /\ IsEncodingOf(r.E, r.ty, r.v, r.out)
        /\ Len(r.out) <= ToNat(r.decl)
        /\ r.cel => Len(r.out) = ToNat(r.decl)

FixOK(r) ==
  LET rt == Resolve(r.E, r.ty) IN
  /\ r.res = "ok"
  /\ r.fixed # -1 => /\ FixedLen(r.E, rt) = r.fixed
                     /\ Len(r.out) = r.fixed
  /\ IsEncodingOf(r.E, r.ty, r.v, r.out)
  /\ FixDrift(r)

(***************************************************************************)
(* len: peeking the element count (C18)                                    *)
(***************************************************************************)
LenOK(r) ==
  LET rt == Resolve(r.E, r.ty)
      ct == IF rt.k = "tuple" THEN Resolve(r.E, rt.ts[1]) ELSE rt        \* the leading collection
      true == IF ct.k = "seq" /\ ZeroElems(r.E, ct) THEN r.coll.rep ELSE FromNat(Len(r.coll), 4)
      spec == CompactDec(4, r.out, 0)
  IN
  /\ r.res = "ok"
  /\ DigEq(r.n, true)                          \* the collection's true length
  /\ spec.ok /\ DigEq(spec.v, r.n)             \* = LenPeek of the specification

(***************************************************************************)
(* like: a value of a type declared to encode like B (C16)                 *)
(***************************************************************************)
LikeOK(r) ==
  /\ r.res = "ok"
  /\ IsEncodingOf(r.E, r.ty, r.v, r.out)            \* byte for byte the encoding of the B-value
  /\ r.dres = "ok" /\ r.dv = r.v /\ r.dn = Len(r.out) \* and B's decoder reads it back
  /\ "bres" \in DOMAIN r => r.bres = "ok" /\ r.bdv = r.v   \* also through the shared-buffer back-end
  /\ \A i \in 1..Len(r.alts) :
        /\ r.alts[i].res = "ok"
        /\ IF r.alts[i].kind = "size" THEN r.alts[i].n = Len(r.out)
           ELSE IsEncodingOf(r.E, r.ty, r.v, r.alts[i].out)

(***************************************************************************)
(* app: a history of append_or_new calls (C15)                             *)
(***************************************************************************)
\* abstract sequence values: lists, or [rep |-> count digits] for zero-width items
AppCount(ty, E, v) == IF ZeroElems(E, ty) THEN Strip(v.rep) ELSE FromNat(Len(v), 4)
AppConcat(ty, E, a, b) == IF ZeroElems(E, ty) THEN [rep |-> Pad(Strip(DigAdd(a.rep, b.rep)), 8)] ELSE a \o b
AppOK(r) ==
  LET ty == r.ty
      step(acc, st) ==
        IF ~acc.ok \/ acc.dead THEN acc
        ELSE LET total == Strip(DigAdd(AppCount(ty, r.E, acc.v), AppCount(ty, r.E, st.b)))
                 overflow == DigLess(U32Max, total)
                 expectOk == ~r.garbage /\ ~overflow
                 nv == AppConcat(ty, r.E, acc.v, st.b)
             IN IF expectOk
                THEN [ok |-> st.res = "ok" /\ IsEncodingOf(r.E, ty, nv, st.out), v |-> nv, dead |-> FALSE]
                ELSE [ok |-> st.res = "err", v |-> acc.v, dead |-> TRUE]
      fin == FoldLeft(step, [ok |-> TRUE, v |-> r.sv, dead |-> FALSE], r.steps)
  IN
  /\ r.garbage \/ Len(r.start) = 0 \/ IsEncodingOf(r.E, ty, r.sv, r.start)   \* the harness's start buffer is what it says
  /\ fin.ok

(***************************************************************************)
(* hist: a construction history; the encoding after every operation is the *)
(* encoding of the logical content (C06)                                   *)
(***************************************************************************)
HistOp(E, ty, s, op) ==
  CASE ty.k = "map" -> MapOp(E, ty.key, s, op)
    [] ty.k = "set" -> SetOp(E, ty.t, s, op)
    [] op[1] = "rv" -> LET i == CHOOSE i \in 1..Len(s) : s[i] = op[2] IN RemoveAtIdx(s, i)   \* heap pop
    [] OTHER -> SeqOp(s, op)
HistView(E, ty, s) == IF ty.k = "seq" /\ ty.c = "heap" THEN NormHeap(E, ty.t, s) ELSE s
HistOK(r) ==
  LET n == Len(r.ops)
      step(acc, i) ==
        IF ~acc.ok THEN acc
        ELSE LET s2 == HistOp(r.E, r.ty, acc.s, r.ops[i])
                 good == IsEncodingOf(r.E, r.ty, HistView(r.E, r.ty, s2), r.outs[i])
                 slgood == Len(r.sl) = 0 \/
                           LET a == r.sl[i][1]  b == r.sl[i][2] IN
                           IsEncodingOf(r.E, r.ty, SubSeq(s2, a + 1, b), r.sl[i][3])
             IN [ok |-> good /\ slgood, s |-> s2]
  IN FoldLeft(step, [ok |-> TRUE, s |-> <<>>], [i \in 1..n |-> i]).ok

(***************************************************************************)
(* heap: allocator ledger of one decode of a hostile input (C09).  hev     *)
(* lists <<live bytes after the request, bytes delivered so far, depth>>   *)
(* for every request that raised the live total.                           *)
(***************************************************************************)
Allowance == 262144
RECURSIVE MaxSz(_, _, _)
\* largest in-memory size of any node of the type (named types resolved once)
MaxSz(E, ty, fuel) ==
  LET own == IF "sz" \in DOMAIN ty THEN ty.sz ELSE 0
      M(a, b) == MaxOf(a, b)
  IN
  CASE ty.k \in {"option", "seq", "array"} -> M(own, MaxSz(E, ty.t, fuel))
    [] ty.k = "set" -> M(M(own, ty.esz), MaxSz(E, ty.t, fuel))
    [] ty.k = "ptr" -> M(M(own, ty.tsz), MaxSz(E, ty.t, fuel))
    [] ty.k = "result" -> M(own, M(MaxSz(E, ty.t, fuel), MaxSz(E, ty.e, fuel)))
    [] ty.k = "map" -> M(M(own, ty.esz), M(MaxSz(E, ty.key, fuel), MaxSz(E, ty.val, fuel)))
    [] ty.k = "tuple" -> FoldLeft(LAMBDA a, t : M(a, MaxSz(E, t, fuel)), own, ty.ts)
    [] ty.k = "enum" -> FoldLeft(LAMBDA a, vr : FoldLeft(LAMBDA b, t : M(b, MaxSz(E, t, fuel)), a, vr.ts), own, ty.vs)
    [] ty.k = "named" -> IF fuel = 0 THEN 0 ELSE MaxSz(E, E[ty.n], fuel - 1)
    [] OTHER -> own
HeapBound(E, ty, pos, depth) ==
  LET ms == MaxSz(E, ty, 2)
      A == 8 * (ms + 64)
      node == 16 * ms + 256
      \* (saturating: TLC integers are 32-bit and a 20000-byte array element at position 20000 is already beyond them)
      lin == IF A > Huge \div (pos + 1) THEN Huge ELSE A * (pos + 1)
      lvl == IF Allowance + node > Huge \div (depth + 1) THEN Huge ELSE (Allowance + node) * (depth + 1)
  IN IF lin >= Huge - lvl THEN Huge ELSE lin + lvl
HeapOK(r) ==
  /\ r.res \in {"ok", "err"}                       \* an error or a small value, never a crash
  /\ r.n <= r.len
  /\ \A i \in 1..Len(r.hev) :
        LET live == ToNat(r.hev[i][1]) IN
        /\ live < 1073741824
        /\ live <= HeapBound(r.E, r.ty, r.hev[i][2], r.hev[i][3])
  /\ r.leak = 0                                    \* everything requested during the decode is released with the value

(***************************************************************************)
(* led: construction / drop ledger of a fault vector (C10)                 *)
(***************************************************************************)
LedOK(r) ==
  LET step(a, e) ==
        IF ~a.ok THEN a
        ELSE IF e[1] = 0 THEN [ok |-> e[2] \notin a.seen, live |-> a.live \cup {e[2]}, seen |-> a.seen \cup {e[2]}]
        ELSE IF e[1] = 1 THEN [ok |-> e[2] \in a.live, live |-> a.live \ {e[2]}, seen |-> a.seen]
        ELSE [ok |-> FALSE, live |-> a.live, seen |-> a.seen]                \* drop of a corrupted element
      a1 == FoldLeft(step, [ok |-> TRUE, live |-> {}, seen |-> {}], r.ev)
      a2 == FoldLeft(step, a1, r.ev2)
      expected == IF r.f < 0 THEN "ok" ELSE IF r.kind = "panic" THEN "panic" ELSE "err"
  IN
  /\ r.res = expected
  /\ a1.ok /\ a2.ok                                         \* no drop before construction, none twice
  /\ Cardinality(a1.seen) = ExpectedNew(r.total, r.f)       \* elements before the fault were constructed, none after
  /\ r.res = "ok" => Cardinality(a1.live) = r.total         \* handed over whole
  /\ r.res # "ok" => a1.live = {}                           \* failure released everything already
  /\ a2.live = {} /\ r.dropok                               \* dropping the result releases the rest
  /\ r.leak = 0                                             \* allocator balance

(***************************************************************************)
(* cnt: CountedInput driven directly over an input that only records what  *)
(* it is asked for: a sequence of reads <<length (8 digits), succeeds>> and *)
(* the counter after each (C19).  Lengths go beyond 2^32 - one read may be  *)
(* larger than any 32-bit quantity - so the sums are done on digit strings; *)
(* the counter is the saturated sum of the lengths of the reads that        *)
(* succeeded.                                                               *)
(***************************************************************************)
SatAdd64(a, b) == LET s == DigAdd(a, b) IN IF Fits(s, 8) THEN Pad(Strip(s), 8) ELSE F(8)
CntOK(r) ==
  LET step(a, i) == [ok |-> a.ok /\ Pad(Strip(r.counts[i]), 8) = (IF r.ops[i][2] THEN SatAdd64(a.c, r.ops[i][1]) ELSE a.c),
                     c |-> IF r.ops[i][2] THEN SatAdd64(a.c, r.ops[i][1]) ELSE a.c]
  IN /\ r.res = "ok"
     /\ Len(r.counts) = Len(r.ops)
     /\ FoldLeft(step, [ok |-> TRUE, c |-> Z(8)], [i \in 1..Len(r.ops) |-> i]).ok

(***************************************************************************)
(* skipenc: a value in a skipped enum variant encodes to no bytes through  *)
(* every entry point, and terminates (C05)                                 *)
(***************************************************************************)
SkipEncOK(r) ==
  /\ r.res = "ok" /\ r.out = <<>>
  /\ \A i \in 1..Len(r.alts) :
        /\ r.alts[i].res = "ok"
        /\ IF r.alts[i].kind = "size" THEN r.alts[i].n = 0 ELSE r.alts[i].out = <<>>

(***************************************************************************)
(* prog: the compiler's verdict on a generated type definition (C17)       *)
(***************************************************************************)
ProgOK(r) ==
  /\ r.compiled = Valid(r.def)                       \* rejected iff the definition has one of the listed faults
  /\ r.twin.kind # "none" =>                         \* ... and its minimally different valid twin compiles,
        /\ Valid(r.twin)                             \*     so the fault is what was rejected
        /\ r.twin_compiled

(***************************************************************************)
(* deep: adversarially deep input for a recursive type, decoded with a     *)
(* depth limit on a small fixed-size stack (C11): the value recurses       *)
(* through `levels` containers, so any limit below that must give an error *)
(* - not a dead thread.                                                    *)
(***************************************************************************)
DeepOK(r) ==
  /\ r.res \in {"ok", "err"}
  /\ r.levels > r.limit => r.res = "err"

(***************************************************************************)
(* cat: a concatenation of encodings of values of mixed types, decoded     *)
(* value by value from one slice (C14): each value is recovered in order,  *)
(* each step consumes exactly its encoding, nothing is left.               *)
(***************************************************************************)
CatOK(r) ==
  LET n == Len(r.parts)
      whole == FoldLeft(LAMBDA a, pt : a \o pt.out, <<>>, r.parts)
      \* the specification decodes the concatenation the same way
      walk == FoldLeft(LAMBDA a, i :
                 IF ~a.ok THEN a
                 ELSE LET pt == r.parts[i]
                          d == Dec(pt.E, pt.ty, whole, a.p)
                      IN [ok |-> /\ IsEncodingOf(pt.E, pt.ty, pt.v, pt.out)
                                 /\ d.ok /\ d.v = pt.v /\ d.p = a.p + Len(pt.out)
                                 /\ i <= Len(r.steps)
                                 /\ r.steps[i].res = "ok" /\ r.steps[i].v = pt.v /\ r.steps[i].n = Len(pt.out),
                          p |-> a.p + Len(pt.out)],
              [ok |-> TRUE, p |-> 0], [i \in 1..n |-> i])
  IN walk.ok /\ Len(r.steps) = n /\ r.rest = <<>>

(***************************************************************************)
(* join: Joiner::and and KeyedVec::to_keyed_vec are a given prefix         *)
(* followed by the encoding (beyond the listed properties)                 *)
(***************************************************************************)
JoinOK(r) ==
  LET n == Len(r.pre) IN
  /\ r.res = "ok"
  /\ Len(r.and) >= n /\ SubSeq(r.and, 1, n) = r.pre
  /\ IsEncodingOf(r.E, r.ty, r.v, SubSeq(r.and, n + 1, Len(r.and)))
  /\ r.keyed = r.and

(***************************************************************************)
(* bitcap: a bit sequence whose count exceeds 2^29 - 1 is rejected although *)
(* all its storage words are present; one at the cap is accepted (C03).    *)
(* The input is count prefix + payload zero bytes + 3 spare bytes; only    *)
(* its shape is logged (64 MiB of zeros are not).                          *)
(***************************************************************************)
BitCapOK(r) ==
  LET nb == ToNat(r.nbits) IN
  /\ r.res \in {"ok", "err"}
  /\ (r.res = "ok") = (nb <= MaxBits)
  /\ r.res = "ok" => r.n = r.head + BitWords(nb, r.w) * r.w

RecOK(r) ==
  CASE r.k = "enc" -> EncOK(r)
    [] r.k = "cnt" -> CntOK(r)
    [] r.k = "bitcap" -> BitCapOK(r)
    [] r.k = "join" -> JoinOK(r)
    [] r.k = "cat" -> CatOK(r)
    [] r.k = "deep" -> DeepOK(r)
    [] r.k = "prog" -> ProgOK(r)
    [] r.k = "skipenc" -> SkipEncOK(r)
    [] r.k = "heap" -> HeapOK(r)
    [] r.k = "led" -> LedOK(r)
    [] r.k = "like" -> LikeOK(r)
    [] r.k = "app" -> AppOK(r)
    [] r.k = "hist" -> HistOK(r)
    [] r.k = "len" -> LenOK(r)
    [] r.k = "mel" -> MelOK(r)
    [] r.k = "fix" -> FixOK(r)
    [] r.k = "cenc" -> CEncOK(r)
    [] r.k = "cdec" -> CDecOK(r)
    [] r.k = "rt"  -> RtOK(r)
    [] r.k = "dec" -> DecOK(r)

Init == l = 1
Next == l <= Len(Rec) /\ RecOK(Rec[l]) /\ l' = l + 1
Spec == Init /\ [][Next]_l

\* POSTCONDITION: every record was consumed; otherwise name the first unexplained one
Accepted ==
  LET d == TLCGet("stats").diameter IN
  IF d - 1 = Len(Rec) THEN PrintT(<<"ACCEPTED", Len(Rec)>>)
  ELSE /\ PrintT(<<"REJECTED", d, Rec[d].k, Rec[d].tn>>)
       /\ FALSE
=============================================================================
