------------------------------ MODULE TypeLib ------------------------------
(***************************************************************************)
(* Descriptor constructors and bounded value universes shared by the MC_*  *)
(* model-checking instances.  sz fields follow a 64-bit target.            *)
(***************************************************************************)
EXTENDS Limits

E0 == [nil |-> [k |-> "unit", sz |-> 0]]

TInt(w, s)   == [k |-> "int", w |-> w, s |-> s, b |-> TRUE, sz |-> w]
TTwin(w, s)  == [k |-> "int", w |-> w, s |-> s, b |-> FALSE, sz |-> w]
TBool        == [k |-> "bool", sz |-> 1]
TUnit        == [k |-> "unit", sz |-> 0]
TCompact(w)  == [k |-> "compact", w |-> w, sz |-> w]
TNonZero(w, s) == [k |-> "nonzero", w |-> w, s |-> s, sz |-> w]
TOptBool     == [k |-> "optbool", sz |-> 1]
TOption(t)   == [k |-> "option", t |-> t, sz |-> t.sz + 8]
TResult(t, e) == [k |-> "result", t |-> t, e |-> e, sz |-> MaxOf(t.sz, e.sz) + 8]
TSeq(t, c)   == [k |-> "seq", t |-> t, c |-> c, sz |-> 24]
TStr         == [k |-> "str", sz |-> 24]
TMap(kt, vt) == [k |-> "map", key |-> kt, val |-> vt, esz |-> kt.sz + vt.sz, sz |-> 24]
TSet(t)      == [k |-> "set", t |-> t, esz |-> t.sz, sz |-> 24]
TArray(t, n) == [k |-> "array", t |-> t, n |-> n, sz |-> t.sz * n]
TTuple(ts)   == [k |-> "tuple", ts |-> ts, sz |-> FoldLeft(LAMBDA a, t : a + t.sz, 0, ts)]
TEnum(vs)    == [k |-> "enum", vs |-> vs, sz |-> 16]
TVariant(i, ts) == [i |-> i, ts |-> ts]
TPtr(t, p)   == [k |-> "ptr", t |-> t, p |-> p, sz |-> 8, tsz |-> t.sz]
TBits(w, o)  == [k |-> "bits", w |-> w, o |-> o, sz |-> 24]
TDuration    == [k |-> "duration", sz |-> 16]
TNamed(n)    == [k |-> "named", n |-> n]

U8 == TInt(1, FALSE)   U16 == TInt(2, FALSE)   U32 == TInt(4, FALSE)
U64 == TInt(8, FALSE)  U128 == TInt(16, FALSE)
I8 == TInt(1, TRUE)    I16 == TInt(2, TRUE)    I32 == TInt(4, TRUE)

(***************************************************************************)
(* Boundary digit strings of width w: compact class edges, lane edges, max *)
(***************************************************************************)
Z(n) == [i \in 1..n |-> 0]
F(n) == [i \in 1..n |-> 255]
BoundaryDigits(w) ==
  LET raw == { <<0>>, <<1>>, <<63>>, <<64>>, <<127>>, <<128>>, <<255>>,
               <<0, 1>>, <<255, 63>>, <<0, 64>>, <<255, 255>>,
               <<0, 0, 1>>, <<255, 255, 255, 63>>, <<0, 0, 0, 64>>, <<255, 255, 255, 255>>,
               <<0, 0, 0, 0, 1>>, <<255, 255, 255, 255, 255, 255, 255>>, F(8),
               <<0, 0, 0, 0, 0, 0, 0, 0, 1>>, F(15), F(16), Z(15) \o <<128>> }
  IN { Pad(d, w) : d \in { x \in raw : Len(x) <= w } }
FewDigits(w) == { Pad(<<0>>, w), Pad(<<65>>, w), F(w) }

SeqsUpTo(S, n) == UNION { [1..m -> S] : m \in 0..n }

(***************************************************************************)
(* Vals(E, ty, d): bounded set of well-formed abstract values; d bounds     *)
(* the width of the sets used at inner positions.                          *)
(***************************************************************************)
RECURSIVE HasNamed(_)
HasNamed(ty) ==
  CASE ty.k = "named" -> TRUE
    [] ty.k \in {"option", "seq", "set", "array", "ptr"} -> HasNamed(ty.t)
    [] ty.k = "result" -> HasNamed(ty.t) \/ HasNamed(ty.e)
    [] ty.k = "map" -> HasNamed(ty.key) \/ HasNamed(ty.val)
    [] ty.k = "tuple" -> \E i \in 1..Len(ty.ts) : HasNamed(ty.ts[i])
    [] ty.k = "enum" -> \E i \in 1..Len(ty.vs) : \E j \in 1..Len(ty.vs[i].ts) : HasNamed(ty.vs[i].ts[j])
    [] OTHER -> FALSE

RECURSIVE Vals(_, _, _)
Vals(E, ty, d) ==
  LET Inner(t) == Vals(E, t, IF HasNamed(t) THEN d ELSE 0)
      Digs(w) == IF d > 0 THEN BoundaryDigits(w) ELSE FewDigits(w)
  IN
  CASE ty.k = "int" -> Digs(ty.w)
    [] ty.k = "compact" -> Digs(ty.w)
    [] ty.k = "nonzero" -> { x \in Digs(ty.w) : ~IsZeroDig(x) }
    [] ty.k = "bool" -> BOOLEAN
    [] ty.k = "unit" -> { <<>> }
    [] ty.k = "optbool" -> { <<>>, <<TRUE>>, <<FALSE>> }
    [] ty.k = "option" -> { <<>> } \cup { <<x>> : x \in Vals(E, ty.t, d) }
    [] ty.k = "result" -> { [ok |-> x] : x \in Vals(E, ty.t, d) } \cup { [err |-> x] : x \in Vals(E, ty.e, d) }
    [] ty.k = "seq" ->
         IF ZeroElems(E, ty) THEN { [rep |-> x] : x \in {Pad(<<0>>, 4), Pad(<<3>>, 4), Pad(<<64>>, 4), Pad(<<0, 64>>, 4), F(4)} }
         ELSE IF ty.c = "heap" THEN { NormHeap(E, ty.t, s) : s \in SeqsUpTo(Inner(ty.t), 2) }
         ELSE SeqsUpTo(Inner(ty.t), 2)
    [] ty.k = "set" -> { NormSet(E, ty.t, s) : s \in SeqsUpTo(Inner(ty.t), 2) }
    [] ty.k = "str" -> { <<>>, <<97>>, <<195, 169>>, <<226, 130, 172, 97>>, <<240, 159, 146, 150>> }
    [] ty.k = "map" -> { NormMap(E, ty.key, s) : s \in SeqsUpTo(Inner(ty.key) \X Inner(ty.val), 2) }
    [] ty.k = "array" -> [1..ty.n -> Inner(ty.t)]
    [] ty.k = "tuple" ->
         IF Len(ty.ts) = 0 THEN { <<>> }
         ELSE IF Len(ty.ts) = 1 THEN { <<x>> : x \in Vals(E, ty.ts[1], d) }
         ELSE IF Len(ty.ts) = 2 THEN { <<x, y>> : x \in Vals(E, ty.ts[1], d), y \in Inner(ty.ts[2]) }
         ELSE { <<x, y, z>> : x \in Inner(ty.ts[1]), y \in Inner(ty.ts[2]), z \in Inner(ty.ts[3]) }
    [] ty.k = "enum" ->
         UNION { { [i |-> i, fs |-> fs] : fs \in Vals(E, [k |-> "tuple", ts |-> ty.vs[i].ts], IF HasNamed(ty) THEN d ELSE 0) } : i \in 1..Len(ty.vs) }
    [] ty.k = "ptr" -> Vals(E, ty.t, d)
    [] ty.k = "bits" -> UNION { [1..n -> {0, 1}] : n \in {0, 1, 2} }
                        \cup { [i \in 1..n |-> IF i % 3 = 0 THEN 0 ELSE 1] : n \in {7, 8, 9, 8 * ty.w, 8 * ty.w + 1, 16 * ty.w + 1} }
    [] ty.k = "duration" -> { <<s, n>> : s \in FewDigits(8), n \in {Pad(<<0>>, 4), <<255, 201, 154, 59>>} }
    [] ty.k = "named" -> IF d = 0 THEN {} ELSE Vals(E, E[ty.n], d - 1)

\* the bounded type universe: every constructor, nesting depth <= 2
Leaves == { U8, U16, U32, U64, U128, I8, I16, TTwin(2, FALSE), TBool, TUnit, TOptBool, TStr, TDuration,
            TCompact(1), TCompact(2), TCompact(4), TCompact(8), TCompact(16),
            TNonZero(1, FALSE), TNonZero(4, TRUE) }
SmallLeaves == { U8, U16, TBool, TUnit, TCompact(4), TStr }
Level1 ==
     { TOption(t) : t \in SmallLeaves } \cup { TResult(U8, TBool), TResult(TStr, U16), TResult(TUnit, TCompact(4)) }
\cup { TSeq(t, c) : t \in SmallLeaves, c \in {"vec", "list"} } \cup { TSeq(U8, "heap"), TSeq(I16, "heap"), TSeq(U16, "deque") }
\cup { TSet(U8), TSet(I8), TSet(TStr), TMap(U8, U16), TMap(TStr, TBool), TMap(I8, TUnit) }
\cup { TArray(U8, 0), TArray(U16, 2), TArray(TBool, 3), TArray(TUnit, 2) }
\cup { TTuple(<<U8>>), TTuple(<<U8, U16>>), TTuple(<<TCompact(4), TBool, TStr>>), TTuple(<<TUnit, TUnit>>) }
\cup { TPtr(U32, "box"), TPtr(TStr, "rc"), TPtr(TUnit, "box"), TPtr(U16, "cow") }
\cup { TBits(w, o) : w \in {1, 2, 4, 8}, o \in {"lsb0", "msb0"} }
\cup { TEnum(<<TVariant(0, <<>>), TVariant(1, <<U8>>), TVariant(7, <<U16, TBool>>)>>),
       TEnum(<<TVariant(255, <<TCompact(4)>>), TVariant(3, <<>>)>>) }
SmallLevel1 == { TOption(U8), TSeq(U8, "vec"), TSeq(TBool, "vec"), TStr, TTuple(<<U8, TBool>>), TPtr(U16, "box"),
                 TSeq(TUnit, "vec"), TMap(U8, TBool) }
Level2 ==
     { TOption(t) : t \in SmallLevel1 } \cup { TSeq(t, "vec") : t \in SmallLevel1 }
\cup { TMap(U8, t) : t \in SmallLevel1 } \cup { TPtr(t, "box") : t \in SmallLevel1 }
\cup { TArray(t, 2) : t \in SmallLevel1 } \cup { TTuple(<<t, U8>>) : t \in SmallLevel1 }
\cup { TSet(TSeq(U8, "vec")), TResult(TSeq(U8, "vec"), TStr) }

\* nesting depth three on a few spines
SmallLevel2 == { TSeq(TSeq(U8, "vec"), "vec"), TOption(TPtr(U16, "box")), TMap(U8, TSeq(TBool, "vec")), TPtr(TOption(U8), "box"),
                 TTuple(<<TSeq(U8, "vec"), U8>>), TSeq(TStr, "vec") }
Level3 == { TOption(t) : t \in SmallLevel2 } \cup { TSeq(t, "vec") : t \in SmallLevel2 } \cup { TPtr(t, "rc") : t \in SmallLevel2 }
          \cup { TTuple(<<U8, t>>) : t \in SmallLevel2 } \cup { TResult(t, TBool) : t \in SmallLevel2 }

\* recursive definitions
ERec == [nil |-> TUnit,
         RV |-> TTuple(<<TSeq(TNamed("RV"), "vec")>>),
         RB |-> TTuple(<<TOption([k |-> "ptr", t |-> TNamed("RB"), p |-> "box", sz |-> 8, tsz |-> 8])>>),
         Tree |-> TEnum(<<TVariant(0, <<U8>>),
                          TVariant(1, << [k |-> "ptr", t |-> TNamed("Tree"), p |-> "box", sz |-> 8, tsz |-> 24],
                                         [k |-> "ptr", t |-> TNamed("Tree"), p |-> "box", sz |-> 8, tsz |-> 24] >>)>>)]
=============================================================================
